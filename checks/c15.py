"""C15 — text in string arguments and metadata survives compile and decompile (in-model + Mode G + observations judged in TLC + CLI sweep)."""
import json, os, re, subprocess, time
from concurrent.futures import ThreadPoolExecutor
from . import lib

LEVEL = "model_checking"
MANIFEST = dict(
    design='DESIGN.md §4 C15',
    technique='TLA+ specification of string framing (StrFrame.tla: terminator, block padding, length prefix, fixed buffers, accelerating XOR mask, furigana carry-over) model-checked by TLC; TLC-generated framing cases replayed into the real Lowerer/Raiser; blobs the real compiler wrote for a Shift-JIS repertoire sweep judged by TLC (Obs_StrFrame); text round trip through the real CLI for MSG/STD/ANM',
    text='In-model: a state machine over sequences of <= 3 consecutive strings (carried furigana block) and one TLC state per (string encoding, text) for 65 encodings (bs 1/4/16, len 1/8, nulless, five masks incl. ones that mask a byte to zero, furibug) x all lengths 0..2bs+1 x four byte patterns and all short texts: every block reads back as its text, sizes are the least multiple of bs, error iff the text (+NUL) exceeds the buffer, the carried block is exactly the last furigana line and is used once; the transcription is pinned to the bundled TH11/TH12/TH17 MSG samples. Binding: every generated case is compiled by the real Lowerer (blob equality with the specification) and decompiled by the real Raiser (from the real and from the specified bytes). Repertoire sweep: texts over every character on which Python\'s shift_jis and cp932 codecs agree (7031 characters; ASCII, half/full-width kana, kanji incl. trail bytes 0x5C 0x7C 0x7E 0x80 0x81 and mask bytes), lengths 0..300, all string encodings; contract Decompile(Compile(t)) = t or an error with a diagnostic, and the written blobs are judged by TLC against StrFrame (so truth must produce the same Shift-JIS bytes and the same framing). Real CLI: trumsg for TH06/08/10/11/12/18, trustd names, truanm paths.',
    note='Trusted: TLC, CommunityModules Json, Python\'s shift_jis/cp932 codecs as the table of unambiguous characters, the harness renderer and string-literal (un)escaping. Characters outside that table (the whole rest of the Basic Multilingual Plane is swept) are only checked against the contract "identical or rejected". The width of the `p` length prefix (4 bytes LE) is not documented and was taken as a dword.',
)

# JVM options for the (many, short) TLC runs: few GC threads and C1-only compilation — the runs are short and the
# machine is shared, C2 compiler threads cost more than they give (measured: 43 s -> 22 s for one Obs shard)
GC = {"_JAVA_OPTIONS": "-XX:ParallelGCThreads=2 -XX:TieredStopAtLevel=1 -Xmx3g"}


class Rec:
    """buffers counters and reports of one part of the check (the parts run concurrently; the buffers are
    applied to the Check in a fixed order so that the outcome does not depend on scheduling)"""

    def __init__(self):
        self.ops = []

    def add(self, key, n=1):
        self.ops.append(("add", key, n))

    def report(self, key, what, replay):
        self.ops.append(("report", key, what, replay))

    def apply(self, chk):
        for op in self.ops:
            getattr(chk, op[0])(*op[1:])


# ------------------------------------------------------------------ repertoire
def repertoire():
    """characters Shift-JIS represents unambiguously: both Python codecs agree and round-trip"""
    out = []
    singles = list(range(0x20, 0x7f)) + list(range(0xa1, 0xe0))
    doubles = [(l, t) for l in list(range(0x81, 0xa0)) + list(range(0xe0, 0xfd))
               for t in list(range(0x40, 0x7f)) + list(range(0x80, 0xfd))]
    for bs in [bytes([b]) for b in singles] + [bytes(p) for p in doubles]:
        try:
            a, c = bs.decode("shift_jis"), bs.decode("cp932")
            if a == c and len(a) == 1 and a.encode("shift_jis") == bs and a.encode("cp932") == bs:
                out.append((a, bs))
        except (UnicodeDecodeError, UnicodeEncodeError):
            pass
    return out


AMBIGUOUS = ["¥", "‾", "−", "＼", "～", "∥", "－", "￠", "￡", "￢",
             "〜", "‖", "¢", "£", "¬", "—"]
UNENCODABLE = ["⏄", "\U0001f600", "é", "Ж́", "한"]

ENCODINGS = [
    dict(letter="z", kind="block", n=4, nulless=False, mask=[0, 0, 0], furibug=False),
    dict(letter="z", kind="block", n=1, nulless=False, mask=[0, 0, 0], furibug=False),
    dict(letter="m", kind="block", n=4, nulless=False, mask=[0x77, 0, 0], furibug=False),
    dict(letter="m", kind="block", n=4, nulless=False, mask=[0x77, 7, 16], furibug=False),
    dict(letter="m", kind="block", n=4, nulless=False, mask=[0x77, 7, 16], furibug=True),
    dict(letter="m", kind="block", n=16, nulless=False, mask=[1, 255, 1], furibug=False),
    dict(letter="p", kind="pascal", n=4, nulless=False, mask=[0, 0, 0], furibug=False),
    dict(letter="p", kind="pascal", n=4, nulless=False, mask=[0x77, 7, 16], furibug=False),
    dict(letter="m", kind="fixed", n=48, nulless=False, mask=[0xaa, 0, 0], furibug=False),
    dict(letter="m", kind="fixed", n=64, nulless=True, mask=[0xdd, 0, 0], furibug=False),
    dict(letter="z", kind="fixed", n=8, nulless=False, mask=[0, 0, 0], furibug=False),
    dict(letter="z", kind="fixed", n=8, nulless=True, mask=[0, 0, 0], furibug=False),
    dict(letter="m", kind="fixed", n=700, nulless=False, mask=[0xbb, 0, 0], furibug=False),
]
UNBOUNDED = [e for e in ENCODINGS if e["kind"] != "fixed"] + [ENCODINGS[-1]]
TH12 = ENCODINGS[4]


def sweep_cases(chk, rep, thorough):
    """[(case, class)]: case = {id, steps: [{encoding.., text}]}"""
    chars = [a for a, _ in rep]
    by_bytes = {a: b for a, b in rep}
    special_trails = {0x5c, 0x7c, 0x7e, 0x80, 0x81, 0x40, 0xfc, 0x77, 0xaa, 0xbb, 0xdd, 0xee}
    special = [a for a, b in rep if (len(b) == 2 and (b[1] in special_trails or b[0] in (0x81, 0x9f, 0xe0, 0xfc)))
               or (len(b) == 1 and b[0] >= 0xa1) or a in "\\\"|~ "]
    if not thorough:
        special = special[::3] + [a for a, b in rep if len(b) == 2 and b[1] in (0x5c, 0x7c)][:40]
    cases = []

    def add(steps, cls):
        cases.append(({"id": len(cases) + 1, "steps": steps}, cls))

    def one(enc, text):
        return [dict(enc, text=text)]

    k = 0
    for a in special:                                   # S1: special bytes alone, doubled, inside ASCII
        for form in (a, a + a, "A" + a, a + "A"):
            add(one(UNBOUNDED[k % len(UNBOUNDED)], form), "special")
            k += 1
    rng = chk.rng
    pool = chars[:]
    rng.shuffle(pool)
    lengths = range(0, 301) if thorough else [n for n in range(0, 301) if n <= 130 or n % 4 == 0 or n in (255, 257, 299)]
    for n in lengths:                                   # S2: lengths 0..300 (quick: all up to 130, then every 4th)
        text = "".join(pool[(n * 7 + j * 13) % len(pool)] for j in range(n))
        if text.startswith("|"):
            text = "A" + text[1:]
        for e in (UNBOUNDED[n % len(UNBOUNDED)], UNBOUNDED[(n + 3) % len(UNBOUNDED)])[:2 if thorough else 1]:
            add(one(e, text), "length")
    for j in range(2000 if thorough else 400):          # S3: random texts, every encoding (fixed ones may overflow)
        text = "".join(rng.choice(chars) for _ in range(rng.randrange(1, 41)))
        add(one(rng.choice(ENCODINGS), text), "random")
    for j in range(400 if thorough else 100):           # S4: consecutive strings with furigana lines
        steps = []
        for _ in range(3):
            t = "".join(rng.choice(chars) for _ in range(rng.randrange(0, 12)))
            if rng.random() < 0.5:
                t = "|" + t
            steps.append(dict(rng.choice([TH12, TH12, ENCODINGS[3], ENCODINGS[0]]), text=t))
        add(steps, "furigana-seq")
    for j in range(0, len(chars), 40):                  # S5: the whole repertoire
        add(one(ENCODINGS[3], "".join(chars[j:j + 40]).replace("|", "")), "repertoire")
    add(one(ENCODINGS[3], "|"), "repertoire")
    return cases, by_bytes


def payload_of(text, by_bytes):
    out = []
    for ch in text:
        b = by_bytes.get(ch)
        if b is None:
            return None
        out.extend(b)
    return out


# ------------------------------------------------------------------ framing cases (Mode G)
def judge_framing(chk, c, o):
    texts = ["".join(map(chr, s["payload"])) for s in c["steps"]]
    exp = c["exp"]
    rep = {"case": c, "observed": o}
    tag = "%s %s" % (o["sigs"], texts)
    for side in ("map", "enc", "dec", "dec_spec"):
        if side in o and "panic" in o[side]:
            chk.report("panic:%s:%s" % (side, lib.norm_loc(o[side]["panic"]["loc"])), "%s panics on %s: %s" % (side, tag, o[side]["panic"]["msg"]), rep)
            return
    if "ok" not in o["map"]:
        chk.report("signature-rejected:%s" % o["sigs"][0].split("(")[0], "valid string signature rejected: %s %s" % (o["sigs"], o["map"]["err"]["errors"][:1]), rep)
        return
    enc = o["enc"]
    kinds = "+".join(sorted({s["kind"] + (":nulless" if s["nulless"] else "") + (":furibug" if s["furibug"] else "") for s in c["steps"]}))
    if all(e["ok"] for e in exp):
        if "ok" not in enc:
            chk.report("rejected:%s" % kinds, "a text that fits is rejected: %s %s" % (tag, enc["err"]["errors"][:1]), rep)
            return
        if enc["ok"] != [e["bytes"] for e in exp]:
            chk.report("blob-differs:%s" % kinds, "blob differs from the specification for %s: real %s, specified %s" % (tag, enc["ok"], [e["bytes"] for e in exp]), rep)
        elif enc["diag"]["warnings"]:
            chk.report("warns:%s" % enc["diag"]["warnings"][0][:40], "compile warns for %s: %s" % (tag, enc["diag"]["warnings"][0]), rep)
        for side in ("dec", "dec_spec"):
            d = o.get(side, {})
            if "ok" not in d:
                chk.report("decode-fails:%s" % kinds, "%s fails for %s: %s" % (side, tag, d.get("err", {}).get("errors")), rep)
            elif d["ok"] != texts:
                chk.report("text-differs:%s" % kinds, "%s: %s reads back as %s" % (side, tag, d["ok"]), rep)
            elif d["diag"]["warnings"]:
                chk.report("decode-warns:%s" % d["diag"]["warnings"][0][:40], "%s warns for %s: %s" % (side, tag, d["diag"]["warnings"][0]), rep)
    else:
        if "err" not in enc:
            chk.report("oversize-accepted:%s" % kinds, "a text that does not fit its buffer compiles: %s -> %s" % (tag, enc.get("ok")), rep)
        elif not enc["err"]["errors"]:
            chk.report("error-without-message", "compile of %s failed without an error message" % tag, rep)


# ------------------------------------------------------------------ sweep contract
def judge_contract(chk, case, cls, o, in_table):
    texts = [s["text"] for s in case["steps"]]
    rep = {"case": case, "observed": o, "class": cls}
    tag = "%s %s" % (o["sigs"], json.dumps(texts, ensure_ascii=False))
    for side in ("map", "enc", "dec"):
        if side in o and "panic" in o[side]:
            chk.report("panic:%s:%s" % (side, lib.norm_loc(o[side]["panic"]["loc"])), "%s panics on %s: %s" % (side, tag, o[side]["panic"]["msg"]), rep)
            return None
    if "ok" not in o["map"]:
        chk.report("signature-rejected:sweep", "string signature rejected: %s" % o["sigs"], rep)
        return None
    enc = o["enc"]
    if "err" in enc:
        if not enc["err"]["errors"]:
            chk.report("error-without-message", "compile of %s failed without an error message" % tag, rep)
        return False
    dec = o.get("dec", {})
    if "ok" not in dec:
        chk.report("decode-fails:sweep:%s" % cls, "the real Raiser fails on what the real Lowerer wrote for %s: %s" % (tag, dec.get("err", {}).get("errors")), rep)
    elif dec["ok"] != texts:
        bad = [t for t, d in zip(texts, dec["ok"]) if t != d][0] if len(dec["ok"]) == len(texts) else texts[0]
        ch = next((c for c in bad if c in AMBIGUOUS + UNENCODABLE), None) or (None if in_table else bad[1:2])
        if ch and not in_table:
            chk.report("silently-changed:U+%04X" % ord(ch), "text %s compiles without a diagnostic and reads back as %s" % (json.dumps(texts, ensure_ascii=False), json.dumps(dec["ok"], ensure_ascii=False)), rep)
        else:
            chk.report("text-differs:sweep:%s" % cls, "%s reads back as %s" % (tag, json.dumps(dec["ok"], ensure_ascii=False)), rep)
    elif in_table and (enc["diag"]["warnings"] or dec["diag"]["warnings"]):
        w = (enc["diag"]["warnings"] + dec["diag"]["warnings"])[0]
        chk.report("warns:sweep:%s" % w[:40], "%s warns: %s" % (tag, w), rep)
    return True


# ------------------------------------------------------------------ real CLI
LIT = re.compile(r'"((?:[^"\\]|\\.)*)"')
UNESC = {"0": "\0", "n": "\n", "r": "\r", "\\": "\\", '"': '"'}


def lit(t):
    return '"' + t.replace("\\", "\\\\").replace('"', '\\"') + '"'


def unlit(body):
    return re.sub(r"\\(.)", lambda m: UNESC.get(m.group(1), m.group(1)), body)


def cli(args, cwd):
    p = subprocess.run([lib.TRUTH_CORE] + args, cwd=cwd, env=lib.clean_env(), stdout=subprocess.PIPE, stderr=subprocess.PIPE, timeout=120)
    return p.returncode, p.stdout.decode("utf-8", "replace"), p.stderr.decode("utf-8", "replace")


MSG_GAMES = {"06": ("ins_3(0, 0, %s);", ""), "08": ("ins_16(%s);", ""), "10": ("ins_16(%s);", ", flags: 256"),
             "11": ("ins_17(%s);", ", flags: 256"), "12": ("ins_17(%s);", ", flags: 256"), "18": ("ins_17(%s);", ", flags: 256")}

STD06 = """meta {
    unknown: 0,
    stage_name: %s,
    bgm: [
        {path: %s, name: %s},
        {path: %s, name: %s},
        {path: %s, name: %s},
        {path: %s, name: %s},
    ],
    objects: {},
    instances: [],
}
script main {}
"""
STD12 = """meta {
    unknown: 0,
    anm_path: %s,
    objects: {},
    instances: [],
}
script main {}
"""
ANM_ENTRY = """entry {
    path: %s,
    has_data: false,
    img_width: 512,
    img_height: 512,
    img_format: 3,
    offset_x: 0,
    offset_y: 0,
    colorkey: 0,
    memory_priority: 0,
    low_res_scale: false,
    sprites: {},
}
"""


def cli_roundtrip(chk, wd, name, cmd, game, source, texts, what, expect="roundtrip"):
    """compile + decompile one file; the multiset of string literals that come back must contain the texts"""
    src = os.path.join(wd, name + ".spec")
    out = os.path.join(wd, name + ".bin")
    with open(src, "w", encoding="utf-8") as f:
        f.write(source)
    rep = {"cmd": cmd, "game": game, "source": source, "texts": texts}
    special = expect.split(":", 1)[1] if expect.startswith("either:") else None
    rc, so, se = cli([cmd, "compile", "-g", game, src, "-o", out], wd)
    chk.add("cli_files")
    if "panicked at" in se:
        chk.report("panic:cli:%s" % cmd, "%s compile -g %s panics on %s: %s" % (cmd, game, what, se[:300]), rep)
        return None
    if rc != 0:
        if "error" not in se:
            chk.report("cli-error-without-message:%s" % cmd, "%s compile failed without a diagnostic" % cmd, rep)
        return False
    rc, so, se2 = cli([cmd, "decompile", "-g", game, out], wd)
    if rc != 0 or "panicked at" in se2:
        chk.report(special or "cli-decompile-fails:%s" % cmd, "%s decompile -g %s fails on its own output for %s: %s" % (cmd, game, what, se2[:300]), rep)
        return None
    back = [unlit(m.group(1)) for m in LIT.finditer(so)]
    missing = [t for t in texts if t not in back]
    if cmd == "trumsg":
        ok = [b for b in back if b != "script0"] == texts
    else:
        ok = not missing
    if not ok:
        bad = (missing or texts)[0]
        ch = next((c for c in bad if c in AMBIGUOUS + UNENCODABLE), None)
        key = "silently-changed:U+%04X" % ord(ch) if ch else special or "cli-text-differs:%s:%s" % (cmd, game)
        chk.report(key, "%s -g %s (%s): text %s does not come back; decompiled literals: %s" % (cmd, game, what, json.dumps(bad, ensure_ascii=False), json.dumps(back[:6], ensure_ascii=False)), rep)
    elif se.strip() or se2.strip():
        chk.report("cli-warns:%s" % cmd, "%s -g %s warns on %s: %s" % (cmd, game, what, (se + se2)[:200]), rep)
    chk.add("cli_strings", len(texts))
    return True


def cli_jobs(rng, rep, thorough):
    """[(name, cmd, game, source, texts, what, expect)]  expect: "roundtrip" | "either" | "reject" """
    chars = [a for a, _ in rep]
    special = [a for a, b in rep if (len(b) == 2 and b[1] in (0x5c, 0x7c, 0x7e, 0x80, 0x81, 0x77)) or (len(b) == 1 and b[0] >= 0xa1)]
    jobs = []
    per_file = 150

    def clip(t, nbytes):
        while len(t.encode("cp932")) > nbytes:
            t = t[:-1]
        return t

    for game, (tmpl, flags) in MSG_GAMES.items():
        def msg(texts):
            body = "\n".join("    " + tmpl % lit(t) for t in texts)
            return "meta { table: { 0: {script: \"script0\"%s} } }\nscript script0 {\n%s\n}\n" % (flags, body)
        texts = []
        texts += [a + "A" + a for a in special[int(game) % 3::3]][:60]
        texts += [clip("".join(chars[(n * 11 + j * 17 + int(game)) % len(chars)] for j in range(n)).replace("|", "!"), 200)
                  for n in list(range(0, 40)) + [63, 64, 99, 100, 101, 120]]
        texts += ["|" + "".join(rng.choice(chars) for _ in range(rng.randrange(0, 9))) if rng.random() < 0.4 else
                  "".join(rng.choice(chars) for _ in range(rng.randrange(0, 30))) for _ in range(per_file - len(texts))]
        texts = [t if not t.startswith("|") or game in ("11", "12", "18") else "!" + t[1:] for t in texts]
        jobs.append(("msg" + game, "trumsg", game, msg(texts), texts, "%d strings" % len(texts), "roundtrip"))
        # a text whose instruction does not fit the format's size field: must come back or be rejected
        big = "".join(chars[300 + k] for k in range(150))
        jobs.append(("msg%s_big" % game, "trumsg", game, msg([big]), [big], "a 300-byte string", "either:msg-oversize:" + game))
        for ch in UNENCODABLE + AMBIGUOUS[:3]:
            jobs.append(("msg%s_u%04x" % (game, ord(ch[0])), "trumsg", game, msg(["a" + ch + "b"]), ["a" + ch + "b"], "U+%04X" % ord(ch[0]), "either"))
    n_std = 12 if thorough else 5
    for game in ("06", "08"):
        for j in range(n_std):
            ts = []
            for k in range(9):
                ln = rng.choice([0, 1, 5, 20, 40, 62, 63]) if k else [0, 1, 63, 126, 127][j % 5]
                t = clip("".join(rng.choice(chars) for _ in range(ln)), 127)
                ts.append(t or " ")
            jobs.append(("std%s_%d" % (game, j), "trustd", game, STD06 % tuple(lit(t) for t in ts), list(dict.fromkeys(ts)), "meta strings", "roundtrip"))
        too_long = "".join(chars[200 + k] for k in range(64))       # 128 bytes: one too many for a 128-byte buffer
        jobs.append(("std%s_long" % game, "trustd", game, STD06 % tuple([lit(too_long)] + [lit("x")] * 8), [too_long], "128-byte stage_name", "either:std-oversize"))
        jobs.append(("std%s_emoji" % game, "trustd", game, STD06 % tuple([lit("a\U0001f600")] + [lit("x")] * 8), ["a\U0001f600"], "emoji", "either"))
    for j in range(n_std):
        t = "".join(rng.choice(chars) for _ in range(rng.randrange(1, 50))) + ".anm"
        jobs.append(("std12_%d" % j, "trustd", "12", STD12 % lit(t), [t], "anm_path", "roundtrip"))
    for j in range(4 if thorough else 2):
        ts = ["dir/" + "".join(rng.choice(chars) for _ in range(rng.randrange(1, 20))) + ".png" for _ in range(12)]
        ts += ["".join(special[(j * 12 + k) % len(special)] for k in range(n)) + ".png" for n in (1, 2, 5, 6, 7, 8, 13, 14, 15, 16)]
        jobs.append(("anm_%d" % j, "truanm", "12", "".join(ANM_ENTRY % lit(t) for t in ts), ts, "entry paths", "roundtrip"))
    jobs.append(("anm_emoji", "truanm", "12", ANM_ENTRY % lit("a⏄.png"), ["a⏄.png"], "unencodable path", "either"))
    # modern ECL: the ANIM / ECLI string lists of the header (variable-length, NUL-terminated, padded to 4 bytes
    # as a whole): every total length modulo 4, ASCII and multi-byte
    for j in range(16 if thorough else 8):
        for game in ("10",):       # (the only modern game with built-in ECL signatures)
            anim = ["".join(rng.choice(chars) for _ in range(n)) + ".anm" for n in ((j + k) % 5 for k in range(1 + j % 3))]
            ecli = ["".join(rng.choice(chars) for _ in range(n)) + ".ecl" for n in ((2 * j + k) % 4 for k in range(j % 3))]
            src = "meta { anim: [%s], ecli: [%s] }\nvoid main() {\n    ins_10();\n}\n" % (", ".join(lit(t) for t in anim), ", ".join(lit(t) for t in ecli))
            jobs.append(("ecl%s_meta_%d" % (game, j), "truecl", game, src, list(dict.fromkeys(anim + ecli)), "anim/ecli lists", "roundtrip"))
    return jobs


def cli_sweep(rec, wd, jobs):
    for name, cmd, game, source, texts, what, expect in jobs:
        r = cli_roundtrip(rec, wd, name, cmd, game, source, texts, what, expect)
        if r is False:
            rec.add("cli_rejected")
            if expect == "roundtrip":
                rec.report("cli-rejected:%s:%s" % (cmd, game), "%s -g %s rejects texts of the repertoire (%s)" % (cmd, game, what),
                           {"cmd": cmd, "game": game, "source": source})


# ------------------------------------------------------------------ driver
def run(chk, replay=None):
    wd = lib.workdir("c15")
    thorough = chk.tier == "thorough"
    extra = os.path.join(wd, "extra.ndjson")
    deep = "_deep" if thorough else ""
    walls = {}
    # ---- all seed-dependent choices are made here, before anything runs concurrently
    SB = 4 * (8 if thorough else 5)
    nsingle, nseq = 65 * 176, SB * SB + SB * SB * SB
    ids = [] if thorough else sorted({nsingle + 1 + chk.rng.randrange(nseq) for _ in range(300)})
    lib.write_ndjson(extra, [{"id": i} for i in ids])
    rep = repertoire()
    sweep, by_bytes = sweep_cases(chk, rep, thorough)
    for ch in AMBIGUOUS + UNENCODABLE:
        for e in (ENCODINGS[0], ENCODINGS[3], ENCODINGS[8]):
            sweep.append(({"id": len(sweep) + 1, "steps": [dict(e, text="a" + ch + "b")]}, "outside-table"))
    # every other character of the Basic Multilingual Plane: must come back identical or be rejected
    table = {a for a, _ in rep}
    for cp in range(0x20, 0x10000):
        if 0xd800 <= cp <= 0xdfff or chr(cp) in table or chr(cp) in AMBIGUOUS + UNENCODABLE:
            continue
        sweep.append(({"id": len(sweep) + 1, "steps": [dict(ENCODINGS[0], text="a" + chr(cp) + "b")]}, "outside-table"))
    jobs = cli_jobs(chk.rng, rep, thorough)
    cases_path = os.path.join(wd, "cases.ndjson")
    only_framing = None
    if replay:
        rc = json.load(open(replay))["case"].get("case", {})
        if "exp" in rc:           # a framing case: replay just that one; anything else: run the whole check again
            only_framing = rc

    def timed(name, f):
        t0 = time.time()
        r = f()
        walls[name] = round(time.time() - t0, 1)
        return r

    def t_machine():
        return lib.tlc("MC_StrFrame", cfg="MC_StrFrame%s.cfg" % deep, env=GC, workers=3, timeout=2400)

    gen_env = dict(GC, OUT=cases_path, EXTRA=extra, SEQSTRIDE="1" if thorough else "9")

    def t_gen():
        return lib.tlc("Gen_StrFrame", cfg="Gen_StrFrame%s.cfg" % deep, env=dict(gen_env, MODE="check", OUT=os.devnull),
                       workers=3, timeout=2400, name="Gen_StrFrame_check")

    def t_export():
        return lib.tlc("Gen_StrFrame", cfg="Gen_StrFrame%s.cfg" % deep, env=dict(gen_env, MODE="export"),
                       workers=1, timeout=2400, name="Gen_StrFrame_export")

    # ---- repertoire sweep through the real Lowerer/Raiser; the blobs are judged by TLC (Obs_StrFrame)
    def t_sweep():
        rec = Rec()
        sweep_path = os.path.join(wd, "sweep.ndjson")
        lib.write_ndjson(sweep_path, [c for c, _ in sweep])
        p = lib.vh(["c15", sweep_path])
        sobs = {}
        for line in p.stdout.split("\n"):
            if not line.strip():
                continue
            o = json.loads(line); sobs[o["id"]] = o
        rows = []
        for c, cls in sweep:
            o = sobs[c["id"]]
            in_table = cls != "outside-table"
            rec.add("sweep_strings", len(c["steps"]))
            rec.add("sweep_" + cls)
            r = judge_contract(rec, c, cls, o, in_table)
            if r is None:
                continue
            if not in_table:
                if r is False:
                    rec.add("outside_table_rejected")
                continue
            steps = [dict(kind=s["kind"], n=s["n"], nulless=s["nulless"], mask=s["mask"], furibug=s["furibug"],
                          payload=payload_of(s["text"], by_bytes)) for s in c["steps"]]
            rows.append({"id": c["id"], "steps": steps, "ok": bool(r), "blobs": o["enc"].get("ok", [])})
        shards = 3 if thorough else 2
        parts = [rows[j::shards] for j in range(shards)]

        def t_obs(j):
            path = os.path.join(wd, "rows_%d.ndjson" % j)
            lib.write_ndjson(path, parts[j])
            return lib.tlc("Obs_StrFrame", env=dict(GC, ROWS=path), workers=1, timeout=2400, name="Obs_StrFrame_%d" % j)

        with ThreadPoolExecutor(shards) as ex:
            results = list(ex.map(t_obs, range(shards)))
        for j, r in enumerate(results):
            rec.ops.append(("tlc_stats", r))
            rec.add("observations_judged_by_tlc", r.distinct)
            if r.ok:
                continue
            m = None
            for m in re.finditer(r"^(?:/\\ )?i = (\d+)", r.out, re.M):
                pass
            if not m:
                raise lib.ToolError("cannot locate the violating row in TLC output\n" + r.out[-3000:])
            row = parts[j][int(m.group(1)) - 1]
            c, cls = sweep[row["id"] - 1]
            texts = [s["text"] for s in c["steps"]]
            kinds = "+".join(sorted({s["kind"] for s in c["steps"]}))
            rec.report("obs-blob-differs:%s:%s" % (cls, kinds),
                       "the blob the real compiler wrote for %s under %s is not what StrFrame specifies (ok=%s)" % (json.dumps(texts, ensure_ascii=False), sobs[c["id"]]["sigs"], row["ok"]),
                       {"case": c, "row": row, "observed": sobs[c["id"]], "tlc": r.out[r.out.find("Error:"):][:3000]})
        return rec

    def t_cli():
        rec = Rec()
        cli_sweep(rec, wd, jobs)
        return rec

    with ThreadPoolExecutor(5) as ex:
        f1, f2 = ex.submit(timed, "machine", t_machine), ex.submit(timed, "gen", t_gen)
        f5 = ex.submit(timed, "export", t_export)
        f3 = None if only_framing else ex.submit(timed, "sweep+obs", t_sweep)
        f4 = None if only_framing else ex.submit(timed, "cli", t_cli)
        r1, r2, r5 = f1.result(), f2.result(), f5.result()
        rec3 = f3.result() if f3 else Rec()
        rec4 = f4.result() if f4 else Rec()
    if not r5.ok:
        raise lib.ToolError("Gen_StrFrame export failed\n" + r5.out[-3000:])
    for r, what in ((r1, "MC_StrFrame"), (r2, "Gen_StrFrame")):
        if not r.ok:
            raise lib.ToolError("%s: the specification itself is inconsistent\n%s" % (what, r.out[-3000:]))
        chk.tlc_stats(r)
    chk.set("states_by_module", {"MC_StrFrame": r1.distinct, "Gen_StrFrame": r2.distinct})

    # ---- Mode G: framing cases
    cases, seen = [], set()
    for c in lib.read_ndjson(cases_path):
        if c["skip"]:
            continue
        sig = json.dumps([c["steps"], c["exp"]], sort_keys=True)
        if sig not in seen:
            seen.add(sig); cases.append(c)
    if only_framing:
        cases = [c for c in cases if c["steps"] == only_framing["steps"]]
    lib.write_ndjson(cases_path, cases)
    t0 = time.time()
    p = lib.vh(["c15", cases_path])
    obs = {}
    for line in p.stdout.split("\n"):
        if not line.strip():
            continue
        o = json.loads(line); obs[o["id"]] = o
    for c in cases:
        o = obs.get(c["id"])
        if o is None:
            raise lib.ToolError("harness lost case %s" % c["id"])
        chk.add("traces_validated_against_impl")
        chk.add("framing_cases_" + c["kind"])
        judge_framing(chk, c, o)
        if c["id"] % 2503 == 11:
            chk.sample({"signatures": o["sigs"], "texts": ["".join(map(chr, s["payload"])) for s in c["steps"]],
                        "expected_blobs": [e["bytes"] if e["ok"] else "error" for e in c["exp"]],
                        "real": o["enc"].get("ok", o["enc"].get("err", {}).get("errors"))})
    walls["replay"] = round(time.time() - t0, 1)
    chk.set("repertoire_chars", len(rep))
    rec3.apply(chk)
    rec4.apply(chk)
    chk.set("wall_s_by_part", walls)
    chk.set("exhaustive", False)
    chk.set("rule", "in-model: every sequence of <=3 strings over 4 encodings x %d texts (MC_StrFrame) and one state per (encoding, text) "
                    "over 65 encodings (Gen_StrFrame); replay: every single-string case + a stride/seed sample of the sequences; "
                    "sweep: special bytes, lengths 0..300, random texts, furigana sequences, whole repertoire" % (8 if thorough else 5))
    chk.assume("the set of characters Shift-JIS represents unambiguously = characters on which Python's shift_jis and cp932 codecs agree and round-trip (%d characters)" % len(rep))
    chk.assume("the length prefix of `p` strings is a little-endian dword (not documented)")
    chk.assume("characters outside the table are only required to come back identical or to be rejected with a diagnostic")
