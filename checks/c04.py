"""C04 — any text input ends in success or a rendered diagnostic, never a crash (Mode H + TLC-enumerated inputs)."""
import json, os, re, shutil, subprocess
from . import lib
from . import toolchain as tc

LEVEL = "exploration"
MANIFEST = dict(
    design='DESIGN.md §4 C04, §1 Mode H, §5; design_notes/C04.md',
    technique='TLA+ toolchain contract (spec/Toolchain.tla) + trace validation by TLC (spec/Trace_Outcomes.tla) of recorded histories of real `truth-core ... compile` invocations; the structured inputs (one defect x every nesting position x format, mapfile grammar) are enumerated by TLC (spec/Gen_IllFormed.tla)',
    text="Every input is compiled by the real command line tool built from the current tree, one process per input (10 s wall limit, 4 GiB address space); the driver records only raw facts (exit status, signal, time-out, number of stderr lines starting with 'error'/'warning') as one event per invocation and TLC accepts a history iff every event is a transition of the contract `Ok(warnings) | Err(>=1 error diagnostic)`, failure <=> error diagnostic printed; panics, aborts, stack overflows, time-outs and allocation failures have no transition and are reported at the first unmatched event. Inputs: (a) TLC-enumerated files with exactly one defect (ill-typed operand, unknown name, redefinition, division by zero, value that does not fit, bad time/difficulty label, break outside loop, wrong arity, duplicate/missing label, non-const where const is required, ...) at every nesting position and expression slot for ANM/STD/MSG/ECL/mission syntax; (b) nesting up to depth 256 (5000 thorough) and extreme literals; (c) token- and byte-level mutation sweeps (incl. invalid UTF-8, NUL, BOM) over decompiled bundled files and the shipped mapfiles; (d) TLC-enumerated mapfile texts (every signature attribute incl. bs=0/len=0, intrinsic strings, difficulty flags, game maps). Exploration: universality over byte strings is sampled, not proved.",
    note='Trusted: TLC + CommunityModules Json; the process observation (exit status / stderr line counting). Finding identity = panic site (file:line of the panic message + message class). The random part of (c) depends on VERIF_SEED; everything else is a deterministic enumeration.',
)

GAMES = ["th06", "th07", "th08", "th09", "th095", "th10", "th11", "th12", "th125", "th128", "th13", "th14", "th143",
         "th15", "th16", "th165", "th17", "th18"]
TOOL_GAMES = {"truanm": GAMES, "trustd": GAMES, "trumsg": GAMES, "truecl": GAMES, "trumsg-mission": ["th095", "th125", "th10"]}
EXT_TOOL = {".anm": "truanm", ".std": "trustd", ".msg": "trumsg", ".ecl": "truecl"}
MAP_TOOL = {".anmm": ("truanm", "anm"), ".stdm": ("trustd", "std"), ".msgm": ("trumsg", "msg"), ".eclm": ("truecl", "ecl")}
MAP_GAME = {"v0.anmm": "th06", "v2.anmm": "th07", "v4.anmm": "th12", "v8.anmm": "th14", "th06.eclm": "th06", "th07.eclm": "th07",
            "th08.eclm": "th08", "debug.eclm": "th10", "th06.msgm": "th06", "th10.msgm": "th10", "th11.msgm": "th11",
            "th11-scene.msgm": "th143", "th06.stdm": "th06", "th07.stdm": "th07", "th095.stdm": "th12", "th14.stdm": "th14",
            "any.anmm": "th12", "any.stdm": "th12", "any.msgm": "th06", "any.eclm": "th06",
            "multiple-mapfiles-1.anmm": "th12", "multiple-mapfiles-2.anmm": "th12"}


def text_of(toks):
    return (" ".join(toks) + "\n").encode()


# --------------------------------------------------------------------------- (a) + (d): TLC-enumerated

def tlc_cases(chk):
    wd = lib.workdir("c04_gen")
    out = os.path.join(wd, "cases.ndjson")
    r = lib.tlc("Gen_IllFormed", env={"OUT": out, "TIER": chk.tier}, workers=8, timeout=1200)
    if not r.ok:
        raise lib.ToolError("Gen_IllFormed: an in-model fact about the generated cases does not hold\n" + r.out[-3000:])
    chk.tlc_stats(r)
    cases = lib.read_ndjson(out)
    chk.set("tlc_enumerated_cases", len(cases))
    return cases


def jobs_from_cases(chk, cases):
    jobs, templates, baselines = [], {}, {}
    for c in cases:
        gen = {"class": "illformed:" + c["kind"], "id": c["id"], "fmt": c["fmt"], "defect": c["defect"], "pos": c["pos"], "slot": c["slot"]}
        if c["kind"] == "template":
            templates[(c["fmt"], c["defect"])] = c
            continue
        data = text_of(c["toks"])
        maps = []
        if c["kind"] == "map":
            gen["class"] = "mapfile-grammar"
            maps = [("user_@ID@.map", ("\n".join(c["map"]) + "\n").encode())]
        jobs.append(tc.Job(c["tool"], "compile", c["game"], data, "spec", maps=maps, gen=gen))
        if c["defect"] == "none" and c["pos"] in ("top", "first", "meta") and c["slot"] in ("-", "field"):
            baselines.setdefault(c["fmt"], (c["tool"], c["game"], data))
        # rotating game: the same text under another game of the same tool
        rot = c["id"] % (3 if chk.tier == "thorough" else 9) == 0
        if rot and c["kind"] != "map":
            games = TOOL_GAMES[c["tool"]]
            for k in range(1):
                g = games[(c["id"] * 7 + k * 5) % len(games)]
                if g != c["game"]:
                    jobs.append(tc.Job(c["tool"], "compile", g, data, "spec", gen=dict(gen, rotated_game=True)))
    return jobs, templates, baselines


# --------------------------------------------------------------------------- (b): grammar level

def nest(open_, inner, close, d):
    # one construct per line: a diagnostic then quotes one short line, not the whole file
    return "\n".join([open_] * d + [inner] + [close] * d)


def grammar_inputs(chk, templates):
    """-> list of (fmt, template kind, label, replacement text).  Pure text assembly."""
    depths = [256] if chk.tier == "quick" else [32, 256, 1000, 5000]
    fmts = ["anm", "ecl", "mission"] if chk.tier == "quick" else ["anm", "std", "msg", "ecl", "mission"]
    out = []
    for f in fmts:
        call = "ins_0 ( ) ;"
        for d in depths:
            if (f, "body-hole") in templates:
                out += [(f, "body-hole", "nest-block-%d" % d, nest("{", call, "}", d)),
                        (f, "body-hole", "nest-loop-%d" % d, nest("loop {", call, "}", d)),
                        (f, "body-hole", "nest-if-%d" % d, nest("if ( 1 ) {", call, "}", d)),
                        (f, "body-hole", "nest-ifelse-%d" % d, "\n".join(["if ( 1 ) { } else"] * d) + " { " + call + " }"),
                        (f, "body-hole", "nest-times-%d" % d, nest("times ( 2 ) {", call, "}", d)),
                        (f, "body-hole", "nest-while-%d" % d, nest("while ( 1 ) {", call, "}", d)),
                        (f, "body-hole", "nest-dowhile-%d" % d, "\n".join(["do {"] * d + [call] + ["} while ( 1 ) ;"] * d)),
                        (f, "body-hole", "many-labels-%d" % d, "\n".join("l%d : +1 :" % i for i in range(d)) + "\n" + call),
                        (f, "body-hole", "many-gotos-%d" % d, "l0 :\n" + "\n".join("goto l0 ;" for i in range(d)))]
            if (f, "expr-hole") in templates:
                out += [(f, "expr-hole", "nest-paren-%d" % d, nest("(", "1", ")", d)),
                        (f, "expr-hole", "nest-neg-%d" % d, " ".join(["-"] * d + ["1"])),
                        (f, "expr-hole", "nest-not-%d" % d, " ".join(["~"] * d + ["1"])),
                        (f, "expr-hole", "nest-right-%d" % d, nest("1 + (", "1", ")", d)),
                        (f, "expr-hole", "chain-add-%d" % d, " + ".join(["1"] * d)),
                        (f, "expr-hole", "chain-mixed-%d" % d, " * ".join(["( 1 - 2 )"] * d)),
                        (f, "expr-hole", "nest-ternary-%d" % d, " ".join(["1 ? 2 :"] * d + ["3"])),
                        (f, "expr-hole", "nest-ternary-left-%d" % d, nest("(", "1", "? 1 : 0 )", d)),
                        (f, "expr-hole", "nest-cast-%d" % d, nest("int ( float (", "1", ") )", d // 2)),
                        (f, "expr-hole", "nest-sin-%d" % d, "int ( " + nest("sin (", "1.0", ")", d) + " )"),
                        (f, "expr-hole", "chain-diffswitch-%d" % d, " : ".join(["1"] * min(d, 64)))]
            if (f, "item-hole") in templates:
                out += [(f, "item-hole", "nest-meta-object-%d" % d, "meta { a : " + nest("{ a :", "1", "}", d) + " }"),
                        (f, "item-hole", "nest-meta-array-%d" % d, "meta { a : " + nest("[", "1", "]", d) + " }"),
                        (f, "item-hole", "many-consts-%d" % d, "\n".join("const int QC%d = %s ;" % (i, "QC%d + 1" % (i + 1) if i + 1 < d else "1") for i in range(d)))]
        lits = ["2147483647", "2147483648", "4294967295", "4294967296", "- 2147483648", "- 2147483649", "0x7FFFFFFF", "0x80000000",
                "0xFFFFFFFF", "0x100000000", "0b" + "1" * 32, "0b" + "1" * 33, "9" * 400, "0x" + "F" * 400, "0" * 400,
                "340282350000000000000000000000000000000.0", "340282360000000000000000000000000000000.0", "9" * 400 + ".0",
                "0." + "0" * 400 + "1", "1.f", "1f", "0.0000000000000000000000000000000000000000000001", "rad(3.0)", "rad(" + "9" * 400 + ")",
                "rad(-)", "INF", "NAN", "- INF", "PI", "1.0 / 0.0", "0.0 / 0.0", "0.0 % 0.0", "1.0 % 0.0", "int ( INF )", "int ( NAN )",
                "int ( 3000000000.0 )", "int ( - 3000000000.0 )", "$ ( 1.5 )", "% ( 3 )", "float ( 2147483647 )", "float ( 16777217 )",
                "2147483647 + 1", "- 2147483647 - 2", "65536 * 65536", "46341 * 46341", "1 << 31", "1 << 32", "1 << - 1", "- 1 >>> 33",
                "- 2147483647 - 1", "( - 2147483647 - 1 ) / - 1", "( - 2147483647 - 1 ) % - 1", "- ( - 2147483647 - 1 )",
                '"\\q"', '"\\', '"abc', '"\\u1234"', '"\\0"', '"' + "a" * 100000 + '"', '"\\n\\r\\t"', "''", "'a'", "a" * 100000,
                "/* unterminated", "/* " + "*" * 1000, "1 // no newline at end", "1 /* c */ + /* c */ 2", "#", "$", "%", "@", "\\", "`",
                "1 +", "+ 1", "1 1", "( )", "1 ? : 2", ": 1", "1 :", "$REG[2147483648]", "$REG[- 1]", "$REG[1.5]", "%REG[0x10]", "REG[1]",
                "$REG", "$REG[", "$ REG [ 10000 ]", "ins_", "ins_99999999999 ( )", "ins_-1 ( )", "_S ( 1 )", "_f ( 1.0 )", "_S ( 1.0 )"]
        for i, lit in enumerate(lits):
            if (f, "expr-hole") in templates:
                out.append((f, "expr-hole", "literal-%d" % i, lit))
        if (f, "body-hole") in templates:
            stmts = ["2147483647 : " + call, "- 2147483648 : " + call, "+ 2147483647 : + 1 : " + call, "4294967296 : " + call,
                     "0 : - 1 : - 2147483648 : " + call, "+ 0 : " + call, "- 0 : " + call, "1 : 1 : 1 : " + call,
                     "\n".join([call] * 20000), "ins_0 ( " + " , ".join(["1"] * 2000) + " ) ;", "int " + " , ".join("v%d" % i for i in range(2000)) + " ;",
                     "interrupt [ 2147483647 ] : " + call, "interrupt [ 2147483648 ] : " + call, "interrupt [ - 2147483648 ] : " + call,
                     '{ "' + "E" * 1000 + '" } : ' + call, '{ "ENHLENHL" } : ' + call, '{ "-" } : ' + call, '{ "*-*-*" } : ' + call,
                     "!E " + call, "!ENHL " + call, "!* " + call, "!- " + call, "!4567 " + call,
                     "ins_0 ( @ mask = 2147483648 ) ;", "ins_0 ( @ mask = - 1 ) ;", "ins_0 ( @ blob = \"" + "00" * 100000 + "\" ) ;",
                     "ins_0 ( @ blob = \"\" ) ;", "ins_0 ( @ blob = \"0\" ) ;", "ins_0 ( @ arg0 = 1 ) ;", "ins_0 ( @ pop = 70000 ) ;",
                     "ins_0 ( @ nargs = 300 ) ;", "ins_0 ( @ mask = 1 , @ mask = 2 ) ;", "ins_0 ( @ blob = \"00000000\" , @ blob = \"00\" ) ;",
                     "goto l0 ; l0 : goto l0 @ 2147483647 ; goto l0 @ - 2147483648 ;", "l0 : if ( 1 ) goto l0 @ 4294967296 ;",
                     "times ( 2147483647 ) { " + call + " }", "times ( 0 ) { " + call + " }", "times ( - 1 ) { " + call + " }",
                     "times ( $REG[10000] = 3 ) { " + call + " }", "times ( 1.5 = 3 ) { " + call + " }", "loop { }", "while ( 0 ) { }", "do { } while ( 0 ) ;",
                     "if ( 1 ) { } else { }", "unless ( 0 ) { }", "{ }", ";", "; ; ;", "break ; break ;", "loop { break ; break ; }",
                     "return ;", "return ; " + call, "loop { return ; }"]
            for i, st in enumerate(stmts):
                out.append((f, "body-hole", "statement-%d" % i, st))
    return out


def grammar_jobs(chk, templates):
    jobs = []
    for f, kind, label, text in grammar_inputs(chk, templates):
        t = templates[(f, kind)]
        hole = "@EXPR@" if kind == "expr-hole" else "@BODY@"
        data = (" ".join(t["toks"]) + "\n").replace(hole, "\n" + text + "\n").encode()
        jobs.append(tc.Job(t["tool"], "compile", t["game"], data, "spec", gen={"class": "grammar:" + label.rsplit("-", 1)[0], "fmt": f, "label": label}))
    return jobs


# --------------------------------------------------------------------------- (c): mutations of valid files

TOKEN = re.compile(r'"(?:[^\\"]|\\.)*"|[A-Za-z_][A-Za-z0-9_]*|[0-9]+(?:\.[0-9]*)?f?|//[^\n]*|\s+|.', re.S)


def tokenize(text):
    return [t for t in TOKEN.findall(text)]


def bundled_binaries():
    out = []
    for d in ("bits-2-bits", "resources"):
        base = os.path.join(lib.REPO, "tests", "integration", d)
        for f in sorted(os.listdir(base)):
            ext = os.path.splitext(f)[1]
            m = re.match(r"(th\d+)-", f)
            if ext in EXT_TOOL and m and os.path.isfile(os.path.join(base, f)):
                out.append((os.path.join(base, f), EXT_TOOL[ext], m.group(1)))
    return out


def decompile_corpus(chk):
    """valid source files: decompile every bundled binary with the real tool"""
    corpus = []
    env = lib.clean_env()
    for path, tool, game in bundled_binaries():
        p = subprocess.run([lib.TRUTH_CORE, tool, "decompile", "-g", game, path], stdout=subprocess.PIPE, stderr=subprocess.PIPE, env=env, timeout=60)
        if p.returncode == 0 and p.stdout.strip():
            maps = []
            corpus.append({"name": os.path.basename(path), "tool": tool, "game": game, "data": p.stdout, "image_source": path if tool == "truanm" else None})
    return corpus


def sweep_positions(n, k):
    """k evenly spread positions in range(n) (all of them if n <= k)"""
    if n <= k:
        return list(range(n))
    return sorted(set(int((i + 0.5) * n / k) for i in range(k)))


BAD_UTF8 = [b"\x80", b"\xc3", b"\xc0\xaf", b"\xe2\x28\xa1", b"\xed\xa0\x80", b"\xf0\x90\x28\xbc", b"\xf8\x88\x80\x80\x80", b"\xff", b"\xfe\xff"]


def token_mutants(text, kpos, allops=True):
    toks = tokenize(text)
    idx = [i for i, t in enumerate(toks) if not t.isspace()]
    out = []
    for p in sweep_positions(len(idx), kpos):
        i = idx[p]
        out.append(("tok-delete", toks[:i] + toks[i + 1:]))
        out.append(("tok-duplicate", toks[:i + 1] + [" ", toks[i]] + toks[i + 1:]))
        if p + 1 < len(idx):
            j = idx[p + 1]
            sw = list(toks)
            sw[i], sw[j] = sw[j], sw[i]
            out.append(("tok-swap", sw))
        out.append(("tok-insert-open-brace", toks[:i] + ["{ "] + toks[i:]))
        out.append(("tok-insert-close-brace", toks[:i] + ["} "] + toks[i:]))
        out.append(("tok-insert-open-paren", toks[:i] + ["( "] + toks[i:]))
    braces = [i for i in idx if toks[i] in "{}()[]"]
    for p in sweep_positions(len(braces), max(2, kpos // 2)):
        i = braces[p]
        out.append(("tok-unbalance", toks[:i] + toks[i + 1:]))
    return [(op, "".join(t).encode()) for op, t in out]


def byte_mutants(data, kpos):
    out = [("byte-bom", b"\xef\xbb\xbf" + data), ("byte-bom16", b"\xff\xfe" + data), ("byte-crlf", data.replace(b"\n", b"\r\n")),
           ("byte-cr", data.replace(b"\n", b"\r")), ("byte-nul-append", data + b"\x00"), ("byte-nul-prepend", b"\x00" + data),
           ("byte-latin1", data.replace(b"a", b"\xe9")), ("byte-utf16", data.decode("utf-8", "replace").encode("utf-16")),
           ("byte-empty", b""), ("byte-only-ws", b" \n\t\r\n"), ("byte-only-nul", b"\x00" * 16)]
    n = len(data)
    for k, p in enumerate(sweep_positions(n, kpos)):
        out.append(("byte-nul", data[:p] + b"\x00" + data[p + 1:]))
        out.append(("byte-ff", data[:p] + b"\xff" + data[p + 1:]))
        bad = BAD_UTF8[k % len(BAD_UTF8)]
        out.append(("byte-bad-utf8", data[:p] + bad + data[p:]))
        out.append(("byte-truncate", data[:p]))
        out.append(("byte-bom-inside", data[:p] + b"\xef\xbb\xbf" + data[p:]))
    return out


def random_mutant(rng, data):
    b = bytearray(data)
    for _ in range(rng.choice([1, 1, 2, 3, 8])):
        op = rng.randrange(6)
        p = rng.randrange(len(b) + 1)
        if op == 0 and b:
            del b[p % len(b)]
        elif op == 1:
            b[p:p] = bytes([rng.randrange(256)])
        elif op == 2 and b:
            b[p % len(b)] = rng.randrange(256)
        elif op == 3 and b:
            q = rng.randrange(len(b) + 1)
            lo, hi = min(p, q), min(max(p, q), min(p, q) + 64)
            b[p:p] = b[lo:hi]
        elif op == 4:
            b[p:p] = rng.choice([b"{", b"}", b"(", b")", b";", b":", b'"', b"0x", b"9999999999", b"-", b"@", b"$", b"%", b"ins_", b"goto ", b"const ",
                                 b"\x00", b"\xff", b"/*", b"*/", b"//", b"1.5", b"script ", b"entry ", b"meta ", b"loop{", b"if(", b"times(", b"REG[", b"!E"])
        elif op == 5 and b:
            q = rng.randrange(len(b) + 1)
            del b[min(p, q):min(max(p, q), min(p, q) + 32)]
    return bytes(b)


def mutation_jobs(chk, corpus, baselines, runner):
    quick = chk.tier == "quick"
    ktok, kbyte = (2, 2) if quick else (40, 15)
    jobs = []
    sources = list(corpus)
    for fmt, (tool, game, data) in sorted(baselines.items()):
        sources.append({"name": "baseline-" + fmt, "tool": tool, "game": game, "data": data, "image_source": None})
    for s in sources:
        opts = ["-i", s["image_source"]] if s["image_source"] else []
        text = s["data"].decode("utf-8")
        for op, data in token_mutants(text, ktok) + byte_mutants(s["data"], kbyte):
            jobs.append(tc.Job(s["tool"], "compile", s["game"], data, "spec", opts=opts, gen={"class": "mutation:" + op, "seed_file": s["name"]}))
    # mapfiles shipped with truth, used with -m and mutated; compiled against the base-line script of the format
    mapdir = os.path.join(lib.REPO, "map")
    extra = os.path.join(lib.REPO, "tests", "integration", "resources")
    mfiles = [os.path.join(mapdir, f) for f in sorted(os.listdir(mapdir))] + [os.path.join(extra, f) for f in sorted(os.listdir(extra))]
    for path in mfiles:
        name = os.path.basename(path)
        ext = os.path.splitext(name)[1]
        if ext not in MAP_TOOL or name not in MAP_GAME:
            continue
        if not os.path.exists(os.path.join(runner.dir, name)):
            shutil.copy(path, os.path.join(runner.dir, name))      # pristine siblings for game maps
        tool, fmt = MAP_TOOL[ext]
        game = MAP_GAME[name]
        script = baselines[fmt][2]
        mdata = open(path, "rb").read()
        jobs.append(tc.Job(tool, "compile", game, script, "spec", maps=[("mut_@ID@" + ext, mdata)], gen={"class": "mutation:map-pristine", "seed_file": name}))
        lines = mdata.decode("utf-8").split("\n")
        muts = []
        for p in sweep_positions(len(lines), 3 if quick else 20):
            muts.append(("map-line-delete", "\n".join(lines[:p] + lines[p + 1:]).encode()))
            muts.append(("map-line-duplicate", "\n".join(lines[:p + 1] + lines[p:]).encode()))
            muts.append(("map-line-swap-fields", "\n".join(lines[:p] + [" ".join(reversed(lines[p].split(" ", 1)))] + lines[p + 1:]).encode()))
        muts += token_mutants(mdata.decode("utf-8"), 2 if quick else 20)[:12 if quick else None]
        muts += byte_mutants(mdata, 1 if quick else 10)
        for op, data in muts:
            jobs.append(tc.Job(tool, "compile", game, script, "spec", maps=[("mut_@ID@" + ext, data)], gen={"class": "mutation:map:" + op, "seed_file": name}))
    # the only seed-dependent part
    nrand = 300 if quick else 6000
    for k in range(nrand):
        s = sources[chk.rng.randrange(len(sources))]
        data = random_mutant(chk.rng, s["data"])
        game = s["game"] if chk.rng.random() < 0.7 else chk.rng.choice(TOOL_GAMES[s["tool"]])
        opts = ["-i", s["image_source"]] if s["image_source"] else []
        jobs.append(tc.Job(s["tool"], "compile", game, data, "spec", opts=opts, gen={"class": "mutation:random", "seed_file": s["name"], "k": k}))
    return jobs, sources


# --------------------------------------------------------------------------- run

def run(chk, replay=None):
    if replay:
        tc.replay_job(chk, replay, "c04")
        return
    import time
    t0 = time.time()
    phases = {}
    # in-model: the abstract toolchain satisfies its invariants and only contract outcomes have transitions
    r0 = lib.tlc("MC_Toolchain", workers=2, timeout=600)
    if not r0.ok:
        raise lib.ToolError("MC_Toolchain does not hold: the contract specification itself is inconsistent\n" + r0.out[-2000:])
    chk.set("contract_model_states", r0.distinct)
    phases["mc_toolchain"] = round(time.time() - t0, 1)
    runner = tc.Runner("c04")
    cases = tlc_cases(chk)
    phases["tlc_generate"] = round(time.time() - t0, 1)
    jobs, templates, baselines = jobs_from_cases(chk, cases)
    jobs += grammar_jobs(chk, templates)
    corpus = decompile_corpus(chk)
    chk.set("corpus_files", len(corpus))
    mjobs, sources = mutation_jobs(chk, corpus, baselines, runner)
    jobs += mjobs
    phases["prepare"] = round(time.time() - t0, 1)
    runner.run(jobs)
    phases["launch"] = round(time.time() - t0, 1)
    chk.add("evaluations", len(jobs))
    tc.outcome_counters(chk, jobs)
    for j in jobs:
        chk.add("inputs_" + j.gen["class"].split(":")[0])
    rejected = tc.judge(chk, jobs, "c04")
    phases["tlc_judge"] = round(time.time() - t0, 1)
    tc.report_rejections(chk, rejected, runner)
    chk.set("phase_seconds_cumulative", phases)

    # distinct & non-trivial: distinct by content (script + user mapfile bytes + tool + game) and different from every valid
    # corpus file / base line (i.e. something was actually broken or generated)
    valid = set(lib.sha(s["data"]) for s in sources)
    pristine_maps = set()
    seen = set()
    for j in jobs:
        ids = j.content_ids()
        if j.gen["class"] == "mutation:map-pristine" or (ids[0] in valid and len(j.inputs) == 1):
            continue
        if j.gen.get("defect") == "none":
            continue
        seen.add((j.tool, j.game, tuple(ids)))
    chk.set("distinct_nontrivial", len(seen))
    chk.set("rule", "inputs: (a)/(d) enumerated by TLC (spec/Gen_IllFormed.tla: defect x nesting position x expression slot x format; "
                    "mapfile grammar), (b) nesting/literal texts, (c) deterministic token/byte mutation sweeps over decompiled bundled files, "
                    "base lines and shipped mapfiles + VERIF_SEED-dependent random mutations. Counted as distinct_nontrivial: distinct "
                    "(tool, game, script bytes, mapfile bytes) whose script/mapfile differs from every valid corpus file and is not a "
                    "`defect = none` base line.")
    chk.set("exhaustive", False)
    picked = set()
    for j in jobs:
        c = j.gen["class"].split(":")[0]
        if c not in picked and (j.gen.get("defect", "x") != "none"):
            picked.add(c)
            d = j.describe()
            chk.sample({"class": j.gen["class"], "gen": j.gen, "command": d["command"], "input": d.get("input_text", d["input_b64"][:200])[:600],
                        "observed": {k: j.event[k] for k in ("exit_code", "signal", "timed_out", "n_error_diags", "n_warning_diags")}})
    chk.assume("one process per input with a 10 s wall-clock limit and a 4 GiB address-space limit; stdout is discarded")
    chk.assume("an error diagnostic = a stderr line starting with 'error' (codespan rendering puts the severity first)")
    chk.assume("universality over byte strings is explored, not proved; (a),(b),(d) and the mutation sweeps are deterministic")
