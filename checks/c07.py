"""C07 — recovering loops and conditionals while decompiling preserves behaviour (Mode P)."""
import json, os
from . import lib, gen_progs

LEVEL = "translation_validation"
MANIFEST = dict(
    design="DESIGN.md §4 C07",
    technique="TLC model-checks the product of the TLA+ script machine on the same instruction stream decompiled by the real Raiser without and with block recovery (postprocess_decompiled), from every initial register valuation x difficulty, plus structural predicates (labels, timed jumps, time labels) evaluated by TLC on the pair of trees",
    text="Instruction streams come from compiling random jump graphs (forward/backward, overlapping, shared targets, jumps with explicit times, counting jumps, interrupt labels, difficulty-tagged jumps) and structured programs; each stream is raised twice by the real decompiler (blocks off / on), both trees are exported and TLC checks in the product machine that they execute identically (call log with times, final time, real time, registers) from all valuations, and that reconstruction did not alter instruction times, capture a jump with an explicit time, or move/drop a label that is still a jump target. The judge of the structured tree is the documented block semantics (AstSem), not desugar_blocks.",
    note="Trusted: TLC; exporter; AstSem reading of the docs. Streams are obtained through the real Lowerer (so only streams truth can emit for the test language); bounded by fuel; ints only in jump conditions.",
)


def harness_pairs(chk, progs, tag):
    wd = lib.workdir("c07_" + tag)
    path = os.path.join(wd, "progs.ndjson")
    lib.write_ndjson(path, progs)
    p = lib.vh(["c07", path])
    pairs = []
    for line in p.stdout.splitlines():
        o = json.loads(line)
        chk.add("evaluations")
        if "panic" in o:
            chk.report("panic:%s" % lib.norm_loc(o["panic"]["loc"]), "decompiling panics: %s\n%s" % (o["panic"]["msg"], o["input"]), o)
        elif "rejected" in o or "unsupported" in o:
            chk.add("rejected")
        else:
            pairs.append(o)
    return pairs


def run(chk, replay=None):
    quick = chk.tier == "quick"
    n_graph = 250 if quick else 6500
    n_block = 80 if quick else 2500
    for flavour, cj in (("ne", "!="), ("gt", ">")):
        cfg = dict(gen_progs.BASE_CFG, count_jmp=cj)
        tcfg = "ProductDecomp_%s%s.cfg" % (flavour, "" if quick else "_wide")
        if replay:
            case = json.load(open(replay))["case"]
            if case["cfg"].replace("_wide", "") != tcfg.replace("_wide", ""):
                continue
            pairs = [case["pair"]]
        else:
            progs = gen_progs.graph_programs(chk.seed * 10 + (1 if flavour == "ne" else 2), n_graph, cfg, max_slots=8 if quick else 12)
            blocks = gen_progs.block_programs(chk.seed * 10 + 5, n_block, cj, start_id=len(progs) + 1)
            for b in blocks:
                b["cfg"] = cfg
            # systematic loop nests with exits (every combination; quick: every other one per flavour)
            nests = gen_progs.loopnest_programs(cfg, start_id=100001)
            if quick:
                nests = nests[(0 if flavour == "ne" else 1)::2]
            chk.add("loopnest_programs", len(nests))
            # systematic conditional chains with exits to every interesting place
            chains = gen_progs.chain_programs(cfg, start_id=200001)
            if quick:
                chains = chains[(0 if flavour == "ne" else 1)::2]
            chk.add("chain_programs", len(chains))
            # structured bases (loops, nests, chains, loops in chains, ...) with one extra jump from every position to
            # every position (quick: a fixed eighth of them per flavour, different eighths; thorough: each in one flavour)
            edges = gen_progs.edge_programs(cfg, start_id=300001)
            if quick:
                edges = edges[(0 if flavour == "ne" else 4)::8]
            else:
                edges = edges[(0 if flavour == "ne" else 1)::2]      # (every program in one of the two flavours)
            chk.add("edge_programs", len(edges))
            pairs = harness_pairs(chk, progs + blocks + nests + chains + edges, flavour)
        chk.add("programs", len(pairs))
        chk.add("disagreements_checked", sum(1 for p in pairs if p.get("changed")))
        cov = lib.product_check(chk, "ProductDecomp", tcfg, pairs, "c07_" + flavour, timeout=900 if quick else 6000)
        for k, v in cov.items():
            chk.add(k, v)
        for p in [p for p in pairs if p.get("changed")][:2]:
            chk.sample({"flavour": flavour, "decompiled": p["text"]})
    chk.set("explanation", "programs = (decompiled without block recovery, decompiled with block recovery) pairs from the real Raiser; "
                           "disagreements_checked = pairs where block recovery changed the tree")
    chk.assume("iteration bounded by fuel; instruction streams are those the real Lowerer emits for the test language")
