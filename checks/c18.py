"""C18 — debug info describes the file that was actually written (Mode H).

Generated programs are compiled by the real CLI with --output-debug-info; the instruction boundaries of
every script are parsed from the OUTPUT BINARY with the per-format header readers below (size field only);
the debug-info JSON is replayed as events against them and spec/Trace_DebugLayout.tla accepts or rejects."""
import json, os, re, struct, subprocess
from concurrent.futures import ThreadPoolExecutor
from . import lib
from . import c17_binfmt as anmfmt

LEVEL = "model_checking"
MANIFEST = dict(
    design='DESIGN.md §4 C18',
    technique='TLA+ layout machine (off, idx) over the instruction sizes read from the written binary; the real --output-debug-info JSON is replayed as a history (instr/label/end/local/const events) and validated by a TLA+ trace spec (impl -> spec trace validation)',
    text='Programs biased to variable-size instructions (MSG strings and TH12 furigana sequences), difficulty-switch replication (ECL 06-08), temporaries and locals (ANM 07/12, ECL), labels at block edges and at the very end are compiled by the real CLI with --output-debug-info for MSG, ANM, STD and ECL06-08. Independent per-format readers locate every script in the output file and read the size field of every instruction actually written; spec/Trace_DebugLayout.tla replays the debug-info entries against them: every instr offset must equal the running sum of binary sizes (PlaceInstr), every label must sit on the current boundary after all instructions of earlier statements and before those of later ones with the time spec/TimeLabels.tla assigns to it (PlaceLabel), end-offset must equal the position after the last real instruction with all instructions consumed (End), every local register must be a register operand of its witness instructions in the binary (Local), every user constant must have the value ExprSem evaluates for its defining expression (Const). TLC accepts a history only if every line is explained.',
    note='Trusted: TLC, Json module, the binary header readers in checks/c18.py (format knowledge from the InstrFormat impls: which bytes hold the size), the attribution of instructions to source statements through the debug-info spans (used only to select witness instructions / before-after sets). Only user-written consts are judged (built-in and auto-generated consts are skipped); compiler-generated labels are checked for position only.',
)

TRUTH = os.environ.get("VERIF_TRUTH_CORE") or lib.TRUTH_CORE


def truth(args, cwd=None):
    return subprocess.run([TRUTH] + list(args), env=lib.clean_env(), cwd=cwd, stdout=subprocess.PIPE,
                          stderr=subprocess.PIPE, text=True, errors="replace")


# =========================================================================================== binary readers
# Each reader returns (size, is_terminal, regs) for the instruction at `o`; `regs` = (int-read, float-read)
# register operands.  Knowledge used: where the size field is and which bytes mark the terminal instruction.
def _float_as_int(dword):
    f, = struct.unpack("<f", struct.pack("<I", dword))
    if f != f or f in (float("inf"), float("-inf")) or abs(f) > 2e9:
        return None
    return int(f) if f == int(f) else None


def _masked_regs(b, o, argstart, size, mask):
    ir, fr = [], []
    n = (size - argstart) // 4
    for i in range(min(n, 16)):
        if mask >> i & 1:
            d, = struct.unpack_from("<I", b, o + argstart + 4 * i)
            ir.append(struct.unpack("<i", struct.pack("<I", d))[0])
            fi = _float_as_int(d)
            if fi is not None:
                fr.append(fi)
    return ir, fr


def rd_anm_v0(b, o, game):          # time i16, opcode i8, argsize u8   (size field = argument bytes)
    _t, _op, argsize = struct.unpack_from("<hbB", b, o)
    return 4 + argsize, None, ([], [])


rd_msg = rd_anm_v0


def rd_anm_v2(b, o, game):          # opcode i16, size u16 (whole instruction), time i16, param_mask u16
    op, size, _t, mask = struct.unpack_from("<hHhH", b, o)
    if op == -1:
        return 8, True, ([], [])
    return size, False, _masked_regs(b, o, 8, size, mask)


def rd_std06(b, o, game):           # time i32, opcode i16, argsize u16 (=12): fixed 20 bytes
    _t, op, argsize = struct.unpack_from("<ihH", b, o)
    if op == -1:
        return 20, True, ([], [])
    return 8 + argsize, False, ([], [])


def rd_std10(b, o, game):           # time i32, opcode i16, size u16 (whole instruction)
    _t, op, size = struct.unpack_from("<ihH", b, o)
    if op == -1:
        return 20, True, ([], [])
    return size, False, ([], [])


def rd_ecl_sub(b, o, game):         # time i32, opcode u16, size i16 (whole), u8 0, u8 difficulty, u16 param_mask
    _t, op, size, _z, _diff, mask = struct.unpack_from("<iHhBBH", b, o)
    if op == 0xFFFF:
        return 12, True, ([], [])
    if game == "06":
        ir, fr = [], []
        for i in range((size - 12) // 4):
            d, = struct.unpack_from("<I", b, o + 12 + 4 * i)
            iv = struct.unpack("<i", struct.pack("<I", d))[0]
            if -10025 <= iv <= -10001:
                ir.append(iv)
            fv = _float_as_int(d)
            if fv is not None and -10025 <= fv <= -10001:
                fr.append(fv)
        return size, False, (ir, fr)
    return size, False, _masked_regs(b, o, 12, size, mask)


def rd_timeline06(b, o, game):      # time i16, arg0 i16, opcode u16, size u16 (whole); terminal = (time -1, arg0 4), 4 bytes
    t, a0 = struct.unpack_from("<hh", b, o)
    if (t, a0) == (-1, 4):
        return 4, True, ([], [])
    _op, size = struct.unpack_from("<HH", b, o + 4)
    return size, False, ([], [])


def rd_timeline08(b, o, game):      # time i32, opcode u16, size u8 (whole), difficulty u8; terminal = (-1, 0, 0, 0)
    t, op, size, diff = struct.unpack_from("<iHBB", b, o)
    if (t, op, size, diff) == (-1, 0, 0, 0):
        return 8, True, ([], [])
    return size, False, ([], [])


def walk_script(b, start, reader, game, extent_end=None):
    """Instruction boundaries of one script as written.  For formats whose terminal instruction is recognisable
    the walk stops there; for `MaybeTerminal` formats (MSG, ANM v0: four zero bytes) the script's extent comes
    from the file's tables and the last four bytes are the terminal.  Returns list of (offset, size, regs)."""
    out = []
    o = start
    if extent_end is not None:
        while o < extent_end - 4:
            size, _term, regs = reader(b, o, game)
            out.append((o - start, size, regs))
            o += size
        if o != extent_end - 4 or b[o:o + 4] != b"\0\0\0\0":
            raise LayoutError("script at %#x does not end with the terminal instruction at %#x" % (start, extent_end - 4))
        return out
    while True:
        size, term, regs = reader(b, o, game)
        if term:
            return out
        if size <= 0:
            raise LayoutError("instruction size %d at %#x" % (size, o))
        out.append((o - start, size, regs))
        o += size
        if o > len(b):
            raise LayoutError("script at %#x runs off the file" % start)


class LayoutError(Exception):
    pass


def scripts_in_binary(fmt, game, b):
    """{debug-info script key: [(offset, size, regs)...]} for every script present in the file."""
    out = {}
    if fmt == "anm":
        old = anmfmt.anm_old_header(game)
        n = 0
        for ent in anmfmt.walk_anm(b, old):
            for (_sid, so) in ent["scripts"]:
                if anmfmt.ANM_VERSION[game] == 0:
                    ends = [x for x in ent["sections"] if x > so] + [ent["end"]]
                    out[("anm-script", n)] = walk_script(b, so, rd_anm_v0, game, extent_end=min(ends))
                else:
                    out[("anm-script", n)] = walk_script(b, so, rd_anm_v2, game)
                n += 1
    elif fmt == "msg":
        cnt, = struct.unpack_from("<I", b, 0)
        stride = 8 if int(game) >= 9 else 4        # the table has a flags word per entry from TH09 on
        offs = [struct.unpack_from("<I", b, 4 + stride * i)[0] for i in range(cnt)]
        for i, so in enumerate(offs):
            if so == 0:
                continue
            ends = [x for x in offs if x > so] + [len(b)]
            out[("msg-script", i)] = walk_script(b, so, rd_msg, game, extent_end=min(ends))
    elif fmt == "std":
        so, = struct.unpack_from("<I", b, 8)
        out[("std-script", 0)] = walk_script(b, so, rd_std10 if game in STD10_GAMES else rd_std06, game)
    elif fmt == "ecl":
        p = 4 if game == "08" else 0
        nsubs, _ntl = struct.unpack_from("<HH", b, p)
        p += 4
        cap = 3 if game == "06" else 16
        tl = [struct.unpack_from("<I", b, p + 4 * i)[0] for i in range(cap)]
        p += 4 * cap
        subs = [struct.unpack_from("<I", b, p + 4 * i)[0] for i in range(nsubs)]
        for i, so in enumerate(subs):
            out[("olde-ecl-sub", i)] = walk_script(b, so, rd_ecl_sub, game)
        ntl = _ntl if game != "06" else (1 if tl[0] else 0)
        for i in range(ntl):
            out[("scl-script", i)] = walk_script(b, tl[i], rd_timeline08 if game == "08" else rd_timeline06, game)
    return out


STD10_GAMES = {"095", "10", "11", "12", "125", "128", "13", "14", "15", "16", "17", "18"}


def script_key(exported_as):
    t = exported_as["type"]
    if t == "msg-script":
        return (t, exported_as["indices"][0])
    if t == "std-script":
        return (t, 0)
    return (t, exported_as["index"])


# =========================================================================================== program generator
class Gen:
    """Builds one program: text + structured statements (the same structure goes to TLC for label times)."""

    def __init__(self, rng, fmt, game):
        self.rng, self.fmt, self.game = rng, fmt, game
        self.nlabel = 0
        self.nvar = 0
        self.lines = []
        self.consts = []          # [{name, ty, e}] user consts in definition order
        self.witness = {}         # local name -> marker text of its witness statement
        self.stmt_ranges = []     # per script: list of plain statements [(marker)], resolved to byte ranges later
        self.regs = fmt in ("anm", "ecl") and not (fmt == "anm" and game == "06")
        self.jumps = fmt in ("anm", "ecl") or (fmt == "std" and game != "06")
        self.marker = 0

    # ---- literals
    def f(self):
        return self.rng.choice(["0.5", "1.0", "2.25", "-3.5", "10.0", "0.125", "64.0"])

    def i(self):
        return str(self.rng.choice([0, 1, 2, 3, 7, 10, 100, 255, 1000]))

    def s(self):
        r = self.rng
        n = r.choice([0, 1, 2, 3, 4, 5, 7, 8, 11, 12, 13, 20, 31, 32, 33, 47])
        alpha = "abcdefghij KLMNOP.,!?"
        return "".join(r.choice(alpha) for _ in range(n))

    def furi(self):
        r = self.rng
        return "|%d,%d,%s" % (r.choice([0, 4, 12]), r.choice([8, 16, 24]), "".join(r.choice("abcdefg") for _ in range(r.choice([1, 2, 3, 5, 8, 9]))))

    def const_ref_int(self):
        ints = [c["name"] for c in self.consts if c["ty"] == "int"]
        if ints and self.rng.random() < 0.3:
            return self.rng.choice(ints)
        return self.i()

    # ---- plain instruction statements per format
    def plain(self):
        r, g, fmt = self.rng, self.game, self.fmt
        if fmt == "msg":
            if g in ("06", "07"):
                return r.choice([lambda: "ins_0();", lambda: "ins_4(%s);" % self.const_ref_int(), lambda: 'ins_3(%s, %s, "%s");' % (self.i(), self.i(), self.s()),
                                 lambda: 'ins_8(0, 1, "%s");' % self.s(), lambda: "ins_7(%s);" % self.i(), lambda: "ins_10();"])()
            if g == "08":
                return r.choice([lambda: "ins_0();", lambda: "ins_4(%s);" % self.const_ref_int(), lambda: 'ins_3(%s, %s, "%s");' % (self.i(), self.i(), self.s()),
                                 lambda: 'ins_16("%s");' % self.s(), lambda: 'ins_19("%s");' % self.s(), lambda: "ins_21(%s);" % self.i()])()
            if g == "09":
                return r.choice([lambda: "ins_0();", lambda: 'ins_16("%s");' % self.s(), lambda: 'ins_3(1, 2, "%s");' % self.s(), lambda: "ins_23(%s);" % self.i(), lambda: "ins_24();"])()
            # th10+ (th12: furibug on 15/16/17)
            base = 14 if g == "10" else 15
            return r.choice([lambda: "ins_0();", lambda: "ins_3();",
                             lambda: 'ins_%d("%s");' % (base + r.randrange(3), self.s()),
                             lambda: 'ins_%d("%s");' % (base + r.randrange(3), self.s()),
                             lambda: 'ins_%d("%s");' % (base + r.randrange(3), self.furi()),
                             lambda: "ins_%d(%s);" % (10 if g == "10" else 11, self.const_ref_int())])()
        if fmt == "std":
            if g in ("06",):
                return r.choice([lambda: "ins_0(%s, %s, %s);" % (self.f(), self.f(), self.f()), lambda: "ins_2(%s, %s, %s);" % (self.f(), self.f(), self.f()),
                                 lambda: "ins_3(%s);" % self.const_ref_int(), lambda: "ins_5();"])()
            if g in ("07", "08"):
                return r.choice([lambda: "ins_0(%s, %s, %s);" % (self.f(), self.f(), self.f()), lambda: "ins_2(%s);" % self.const_ref_int(),
                                 lambda: "ins_3();", lambda: "ins_6(%s, %s);" % (self.i(), self.i()), lambda: "ins_11(%s);" % self.f()])()
            return r.choice([lambda: "ins_0();", lambda: "ins_2(%s, %s, %s);" % (self.f(), self.f(), self.f()), lambda: "ins_7(%s);" % self.f(),
                             lambda: "ins_3(%s, 2, %s, %s, %s);" % (self.const_ref_int(), self.f(), self.f(), self.f()),
                             lambda: "ins_10(%s, 3, %s);" % (self.i(), ", ".join(self.f() for _ in range(9))),
                             lambda: "ins_12(1);", lambda: "ins_14(%s, 2);" % self.i()])()
        if fmt == "anm":
            if g == "06":
                return r.choice([lambda: "ins_1(sprite%d);" % r.randrange(2), lambda: "ins_2(%s, %s);" % (self.f(), self.f()), lambda: "ins_9(%s, %s, %s);" % (self.f(), self.f(), self.f()),
                                 lambda: "ins_13();", lambda: "ins_18(%s, %s, %s, %s);" % (self.f(), self.f(), self.f(), self.i()), lambda: "ins_8();"])()
            if g == "07":
                return r.choice([lambda: "ins_3(sprite%d);" % r.randrange(2), lambda: "ins_6(%s, %s, %s);" % (self.f(), self.f(), self.f()), lambda: "ins_7(%s, %s);" % (self.f(), self.f()),
                                 lambda: "ins_10();", lambda: "ins_17(%s, %s, %s, %s);" % (self.f(), self.f(), self.f(), self.const_ref_int())])()
            if g == "16":
                return r.choice([lambda: "ins_2();", lambda: "ins_300(sprite%d);" % r.randrange(2), lambda: "ins_400(%s, %s, %s);" % (self.f(), self.f(), self.f()),
                                 lambda: "ins_402(%s, %s);" % (self.f(), self.f()), lambda: "ins_6(%s);" % self.const_ref_int(), lambda: "ins_404(%s, %s, %s);" % (self.i(), self.i(), self.i())])()
            return r.choice([lambda: "ins_1();", lambda: "ins_3(sprite%d);" % r.randrange(2), lambda: "ins_48(%s, %s, %s);" % (self.f(), self.f(), self.f()),
                             lambda: "ins_50(%s, %s);" % (self.f(), self.f()), lambda: "ins_61();", lambda: "ins_56(%s, 1, %s, %s, %s);" % (self.const_ref_int(), self.f(), self.f(), self.f())])()
        if fmt == "ecl":
            nds = r.choice([4, 4, 2, 3])        # one switch length per statement
            ds = lambda lit: ":".join(lit() for _ in range(nds)) if r.random() < 0.5 else lit()
            if g == "06":
                return r.choice([lambda: "ins_43(%s, %s, %s);" % (ds(self.f), self.f(), self.f()), lambda: "ins_45(%s, %s);" % (self.f(), ds(self.f)),
                                 lambda: "ins_46(%s);" % ds(self.f), lambda: "ins_0();"])()
            if g == "07":
                return r.choice([lambda: "ins_10(%s, %s);" % (ds(self.i), self.const_ref_int()), lambda: "ins_43(%s, %s, %s);" % (self.i(), ds(self.i), ds(self.i)),
                                 lambda: "ins_8(%s, %s);" % (ds(self.f), self.f()), lambda: "ins_40(%s);" % ds(self.f), lambda: "ins_0();"])()
            return r.choice([lambda: "ins_8(%s, %s);" % (ds(self.i), self.const_ref_int()), lambda: "ins_9(%s, %s);" % (ds(self.f), self.f()),
                             lambda: "ins_2(%s);" % ds(self.i), lambda: "ins_70(%s);" % ds(self.f), lambda: "ins_0();"])()
        raise AssertionError(fmt)

    def timeline_plain(self):
        r, g = self.rng, self.game
        if g in ("06", "07"):
            return r.choice([lambda: "ins_10(%s, %s);" % (self.i(), self.i()), lambda: "ins_9();", lambda: "ins_12(%s);" % self.i()])()
        return r.choice([lambda: "ins_7();", lambda: "ins_9(%s);" % self.i(), lambda: "ins_10(%s);" % self.i(), lambda: "ins_8(%s, %s);" % (self.i(), self.i())])()

    # ---- statements
    def mark(self, text):
        """Appends a unique marker comment so that the statement's byte range can be found in the rendered text."""
        self.marker += 1
        return "%s /*m%d*/" % (text, self.marker), "/*m%d*/" % self.marker

    def gen_block(self, depth, budget, vars_in_scope, timeline=False):
        r = self.rng
        stmts, lines = [], []
        n = r.randrange(1, budget + 1)
        for _ in range(n):
            k = r.random()
            if k < 0.14:
                if r.random() < 0.5:
                    v = r.choice([1, 2, 5, 10, 30])
                    self.tcur += v
                    stmts.append({"k": "rel", "e": {"k": "int", "v": v}})
                    lines.append("+%d:" % v)
                else:
                    self.tcur += r.choice([0, 1, 7, 20, 60])
                    stmts.append({"k": "abs", "t": self.tcur})
                    lines.append("%d:" % self.tcur)
            elif k < 0.30:
                self.nlabel += 1
                nm = "L%d" % self.nlabel
                stmts.append({"k": "label", "name": nm})
                lines.append("%s:" % nm)
            elif k < 0.42 and self.regs and not timeline:
                self.nvar += 1
                ty = r.choice(["int", "float"])
                nm = "%s%d" % ("vi" if ty == "int" else "vf", self.nvar)
                txt, m = self.mark("%s %s = %s;" % (ty, nm, self.i() if ty == "int" else self.f()))
                stmts.append({"k": "expr", "m": m})
                lines.append(txt)
                vars_in_scope = vars_in_scope + [(nm, ty)]
                self.witness[nm] = m
            elif k < 0.54 and self.regs and vars_in_scope and not timeline:
                nm, ty = r.choice(vars_in_scope)
                lit = self.i if ty == "int" else self.f
                form = r.choice(["%s = %s + %s;" % (nm, nm, lit()), "%s = (%s + %s) * (%s - %s);" % (nm, nm, lit(), nm, lit()),
                                 "%s = %s * %s + %s * %s;" % (nm, nm, lit(), nm, lit()), "%s = %s;" % (nm, lit())])
                txt, m = self.mark(form)
                stmts.append({"k": "expr", "m": m})
                lines.append(txt)
            elif k < 0.62 and depth < 2 and self.jumps and not timeline:
                body, blines, _ = self.gen_block(depth + 1, 4, vars_in_scope)
                stmts.append({"k": "loop", "body": body})
                lines.append("loop {")
                lines += ["    " + x for x in blines]
                lines.append("}")
            elif k < 0.68 and depth < 2 and self.regs and not timeline and [v for v in vars_in_scope if v[1] == "int"]:
                nm = r.choice([v for v in vars_in_scope if v[1] == "int"])[0]
                b1, l1, _ = self.gen_block(depth + 1, 3, vars_in_scope)
                st = {"k": "chain", "blocks": [{"body": b1}]}
                lines.append("if (%s == %s) {" % (nm, self.i()))
                lines += ["    " + x for x in l1]
                if r.random() < 0.5:
                    b2, l2, _ = self.gen_block(depth + 1, 3, vars_in_scope)
                    st["else"] = b2
                    lines.append("} else {")
                    lines += ["    " + x for x in l2]
                lines.append("}")
                stmts.append(st)
            elif k < 0.72 and depth < 2:
                body, blines, _ = self.gen_block(depth + 1, 3, vars_in_scope, timeline)
                stmts.append({"k": "block", "body": body})
                lines.append("{")
                lines += ["    " + x for x in blines]
                lines.append("}")
            else:
                txt, m = self.mark(self.timeline_plain() if timeline else self.plain())
                stmts.append({"k": "expr", "m": m})
                lines.append(txt)
        if r.random() < 0.35:       # a label at the very end of the block
            self.nlabel += 1
            nm = "L%d" % self.nlabel
            stmts.append({"k": "label", "name": nm})
            lines.append("%s:" % nm)
        return stmts, lines, vars_in_scope

    def gen_consts(self):
        r = self.rng
        out = []
        for _ in range(r.randrange(0, 4)):
            n = len(self.consts) + 1
            ty = r.choice(["int", "int", "float"])
            nm = "K%d" % n
            if ty == "int":
                prev = [c["name"] for c in self.consts if c["ty"] == "int"]
                a, b = r.choice([1, 2, 3, 5, 100, 7]), r.choice([1, 2, 4, 9])
                op = r.choice(["+", "-", "*", "%", "|", "<<"])
                if prev and r.random() < 0.5:
                    p = r.choice(prev)
                    text = "%s %s %d" % (p, op, b)
                    e = {"k": "bin", "op": op, "a": {"k": "var", "id": p, "sig": ""}, "b": {"k": "int", "v": b}}
                elif r.random() < 0.3:
                    text = "%d" % a
                    e = {"k": "int", "v": a}
                else:
                    text = "%d %s %d" % (a, op, b)
                    e = {"k": "bin", "op": op, "a": {"k": "int", "v": a}, "b": {"k": "int", "v": b}}
            else:
                a, b = r.choice([(3, 1), (1, 2), (5, 0), (7, 3)]), r.choice([(1, 1), (3, 2), (2, 0)])
                lit = lambda q: repr(q[0] / 2.0 ** q[1])
                op = r.choice(["+", "-", "*"])
                text = "%s %s %s" % (lit(a), op, lit(b))
                e = {"k": "bin", "op": op, "a": {"k": "float", "cls": "fin", "n": a[0], "s": a[1]}, "b": {"k": "float", "cls": "fin", "n": b[0], "s": b[1]}}
            self.consts.append({"name": nm, "ty": ty, "e": e})
            out.append("const %s %s = %s;" % (ty, nm, text))
        return out

    def program(self):
        r, fmt, g = self.rng, self.fmt, self.game
        head = []
        scripts = []         # [{key, src}]
        body = []
        consts = self.gen_consts()
        if fmt == "anm":
            head.append('entry {\n    path: "subdir/file.png",\n    has_data: false,\n    img_width: 512,\n    img_height: 512,\n    img_format: 3,\n'
                        '    sprites: {\n        sprite0: {id: 0, x: 0.0, y: 0.0, w: 512.0, h: 480.0},\n        sprite1: {id: 1, x: 0.0, y: 0.0, w: 512.0, h: 480.0},\n    },\n}')
            nscripts = r.randrange(1, 4)
            for k in range(nscripts):
                if k == 2:      # a second entry, so that script indices run across entries
                    body.append('entry {\n    path: "subdir/file2.png",\n    has_data: false,\n    img_width: 64,\n    img_height: 64,\n    img_format: 3,\n    sprites: {},\n}')
                self.tcur = 0
                st, ln, _ = self.gen_block(0, 7, [])
                scripts.append({"key": ("anm-script", k), "src": st})
                body.append("script script%d {\n%s\n}" % (k, "\n".join("    " + x for x in ln)))
        elif fmt == "msg":
            n = r.randrange(1, 4)
            flags = ", flags: 256" if int(g) >= 9 else ""
            head.append("meta {\n    table: {\n%s\n    }\n}" % "\n".join("        %d: {script: \"s%d\"%s}," % (2 * k, k, flags) for k in range(n)))
            for k in range(n):
                self.tcur = 0
                st, ln, _ = self.gen_block(0, 8, [])
                scripts.append({"key": ("msg-script", 2 * k), "src": st})
                body.append("script s%d {\n%s\n}" % (k, "\n".join("    " + x for x in ln)))
        elif fmt == "std":
            if g in ("06", "07", "08"):
                head.append('meta {\n    unknown: 0,\n    stage_name: "dm",\n    bgm: [\n        {path: "bgm/th08_08.mid", name: "dm"},\n        {path: "bgm/th08_09.mid", name: "dm"},\n'
                            '        {path: " ", name: " "},\n        {path: " ", name: " "},\n    ],\n    objects: {},\n    instances: [],\n}')
            else:
                head.append('meta {\n    unknown: 0,\n    anm_path: "stage01.anm",\n    objects: {\n        thing: {\n            layer: 4,\n            pos: [10.0, 20.0, 30.0],\n'
                            '            size: [10.0, 20.0, 30.0],\n            quads: [],\n        },\n    },\n    instances: [],\n}')
            self.tcur = 0
            st, ln, _ = self.gen_block(0, 9, [])
            scripts.append({"key": ("std-script", 0), "src": st})
            body.append("script main {\n%s\n}" % "\n".join("    " + x for x in ln))
        elif fmt == "ecl":
            self.tcur = 0
            st, ln, _ = self.gen_block(0, 4, [], timeline=True)
            scripts.append({"key": ("scl-script", 0), "src": st})
            body.append("script timeline0 {\n%s\n}" % "\n".join("    " + x for x in ln))
            for k in range(r.randrange(1, 4)):
                self.tcur = 0
                params = []
                pre = []
                if g != "06" and r.random() < 0.5:
                    self.nvar += 1
                    ty = r.choice(["int", "float"])
                    nm = "p%d" % self.nvar
                    params.append((nm, ty))
                elif g == "06" and r.random() < 0.4:
                    self.nvar += 1
                    ty = r.choice(["int", "float"])
                    nm = "p%d" % self.nvar
                    params.append((nm, ty))
                for (nm, ty) in params:     # witness statement of a parameter: copy it into a fresh local
                    self.nvar += 1
                    ln_ = "%s w%d = %s;" % (ty, self.nvar, nm)
                    txt, m = self.mark(ln_)
                    pre.append(({"k": "expr", "m": m}, txt))
                    self.witness[nm] = m
                    self.witness["w%d" % self.nvar] = m
                st, ln, _ = self.gen_block(0, 7, list(params))
                st = [p[0] for p in pre] + st
                ln = [p[1] for p in pre] + ln
                scripts.append({"key": ("olde-ecl-sub", k), "src": st})
                body.append("void sub%d(%s) {\n%s\n}" % (k, ", ".join("%s %s" % (ty, nm) for nm, ty in params), "\n".join("    " + x for x in ln)))
        text = "\n\n".join(head + consts + body) + "\n"
        return {"fmt": fmt, "game": g, "text": text, "scripts": scripts, "consts": self.consts, "witness": self.witness}


FORMATS = [("msg", "06"), ("msg", "08"), ("msg", "09"), ("msg", "12"), ("msg", "12"), ("msg", "17"),
           ("anm", "06"), ("anm", "07"), ("anm", "12"), ("anm", "12"), ("anm", "16"),
           ("std", "06"), ("std", "08"), ("std", "12"),
           ("ecl", "06"), ("ecl", "07"), ("ecl", "07"), ("ecl", "08")]
CMD = {"msg": "trumsg", "anm": "truanm", "std": "trustd", "ecl": "truecl"}
EXT = {"msg": "msg", "anm": "anm", "std": "std", "ecl": "ecl"}


# =========================================================================================== events
def strip_markers(src):
    """The statement tree handed to TLC: markers are driver bookkeeping only."""
    out = []
    for s in src:
        s2 = {k: v for k, v in s.items() if k != "m"}
        if "body" in s2:
            s2["body"] = strip_markers(s2["body"])
        if "blocks" in s2:
            s2["blocks"] = [{"body": strip_markers(b["body"])} for b in s2["blocks"]]
        if "else" in s2:
            s2["else"] = strip_markers(s2["else"])
        out.append(s2)
    return out


def flat_order(src, acc=None):
    """Plain statements (markers) and labels in source order: [("m", marker) | ("l", name)]."""
    acc = [] if acc is None else acc
    for s in src:
        if s["k"] == "expr":
            acc.append(("m", s["m"]))
        elif s["k"] == "label":
            acc.append(("l", s["name"]))
        elif s["k"] in ("loop", "block"):
            flat_order(s["body"], acc)
        elif s["k"] == "chain":
            for b in s["blocks"]:
                flat_order(b["body"], acc)
            if "else" in s:
                flat_order(s["else"], acc)
    return acc


def float_value(x):
    """JSON float -> the dyadic record of F32.tla (exact: a float IS n * 2^-s)."""
    if x == 0:
        return {"t": "f", "c": "zero", "n": 0, "s": 0}
    n, d = float(x).as_integer_ratio()
    s = d.bit_length() - 1
    return {"t": "f", "c": "fin", "n": n, "s": s}


def events_for(prog, dbg, binary, file_id):
    """Debug-info entries + facts from the binary -> trace lines for one compiled program."""
    ev = [{"ev": "file", "id": file_id, "fmt": prog["fmt"] + prog["game"]}]
    text = prog["text"].encode("utf-8")
    # ---- constants: user-written ones, in definition order
    dconsts = {c["name"]: c for c in dbg["consts"]}
    for c in prog["consts"]:
        d = dconsts.get(c["name"])
        if d is None:
            ev.append({"ev": "const_missing", "name": c["name"]})
            continue
        v = d["value"]
        if "int" in v:
            val = {"t": "i", "v": v["int"]}
        elif "float" in v and v["float"] is not None:
            val = float_value(v["float"])
        else:
            val = {"t": "other", "raw": json.dumps(v)}
        ev.append({"ev": "const", "name": c["name"], "value": val, "e": c["e"]})
    # ---- scripts
    in_bin = scripts_in_binary(prog["fmt"], prog["game"], binary)
    dscripts = {script_key(s["exported-as"]): s for s in dbg["exported-scripts"]}
    src_by_key = {tuple(s["key"]): s["src"] for s in prog["scripts"]}
    for key in sorted(in_bin):
        d = dscripts.get(key)
        instrs_bin = in_bin[key]
        src = src_by_key.get(key, [])
        if d is None:
            ev.append({"ev": "script_missing", "key": list(key)})
            continue
        ev.append({"ev": "script", "key": list(key), "sizes": [sz for (_o, sz, _r) in instrs_bin], "src": strip_markers(src)})
        # byte ranges of the plain statements, via their markers
        order = flat_order(src)
        mrange = {}
        for kind, m in order:
            if kind == "m":
                end = text.index(m.encode())
                start = text.rfind(b"\n", 0, end) + 1
                mrange[m] = (start, end)

        def instrs_of(m):
            a, b = mrange[m]
            return [k for k, ins in enumerate(d["instrs"]) if ins["span"] is not None and a <= ins["span"][1] and ins["span"][2] <= b]

        items = [("i", ins["offset"], k) for k, ins in enumerate(d["instrs"])]
        for lab in d["labels"]:
            insrc = any(kind == "l" and nm == lab["name"] for kind, nm in order)
            before, after = [], []
            if insrc:
                pos = order.index(("l", lab["name"]))
                for kind, m in order[:pos]:
                    if kind == "m":
                        before += [d["instrs"][k]["offset"] for k in instrs_of(m)]
                for kind, m in order[pos + 1:]:
                    if kind == "m":
                        after += [d["instrs"][k]["offset"] for k in instrs_of(m)]
            items.append(("l", lab["offset"], {"ev": "label", "offset": lab["offset"], "time": lab["time"], "name": lab["name"],
                                                "insrc": insrc, "before": before, "after": after}))
        # labels are replayed at the boundary they claim (before the instruction that starts there)
        items.sort(key=lambda it: (it[1], 0 if it[0] == "l" else 1))
        for it in items:
            if it[0] == "i":
                ev.append({"ev": "instr", "offset": it[1]})
            else:
                ev.append(it[2])
        for kind, nm in order:      # a label of the source that the debug info does not list
            if kind == "l" and not any(l["name"] == nm for l in d["labels"]):
                ev.append({"ev": "label_missing", "name": nm})
        ev.append({"ev": "end", "offset": d["end-offset"]})
        for loc in d["locals"]:
            m = prog["witness"].get(loc["name"])
            if m is not None and m in mrange:
                ks = instrs_of(m)
            else:       # temporaries: the instructions with exactly the local's span
                ks = [k for k, ins in enumerate(d["instrs"]) if ins["span"] is not None and ins["span"] == loc["name-span"]]
            iregs, fregs = [], []
            for k in ks:
                if k < len(instrs_bin):
                    iregs += instrs_bin[k][2][0]
                    fregs += instrs_bin[k][2][1]
            ev.append({"ev": "local", "name": loc["name"], "reg": loc["bound-to"]["reg"], "ty": loc["type"],
                       "regs": sorted(set(iregs) | set(fregs))})
    for key in dscripts:
        if key not in in_bin:
            ev.append({"ev": "script_not_in_binary", "key": list(key)})
    return ev


# =========================================================================================== driver
def compile_one(args):
    wd, n, prog = args
    base = os.path.join(wd, "p%05d" % n)
    src = base + ".txt"
    out = base + "." + EXT[prog["fmt"]]
    dbg = base + ".json"
    with open(src, "w") as f:
        f.write(prog["text"])
    p = truth([CMD[prog["fmt"]], "compile", src, "-g", prog["game"], "-o", out, "--output-debug-info", dbg])
    res = {"n": n, "rc": p.returncode, "stderr": p.stderr[-1500:]}
    if "panicked at" in p.stderr or p.returncode not in (0, 1):
        res["panic"] = True
        return res
    if p.returncode != 0:
        return res
    try:
        res["dbg"] = json.load(open(dbg))
        res["bin"] = open(out, "rb").read()
    except Exception as e:        # a successful compile must have written both
        res["missing"] = str(e)
    for fpath in (src, out, dbg):
        if os.path.exists(fpath):
            os.remove(fpath)
    return res


def judge_shard(args):
    """One TLC run over many histories.  Returns (distinct, generated, accepted ids, {rejected id: index of the rejected line within the history})."""
    wd, sh, files = args       # files: [(file_id, events)]
    path = os.path.join(wd, "trace_%d.ndjson" % sh)
    rows = []
    start = {}
    for fid, evs in files:
        start[fid] = len(rows)
        rows += evs
    lib.write_ndjson(path, rows)
    r = lib.tlc("Trace_DebugLayout", env={"TRACE": path}, workers=1, timeout=1500, name="trace_dl_%d" % sh, heap="2g")
    if not r.ok:
        inv = re.search(r"Invariant (\w+) is violated", r.out)
        raise lib.ToolError("Trace_DebugLayout: machine invariant %s violated\n%s" % (inv.group(1) if inv else "?", r.out[-3000:]))
    ma, mp = re.search(r'<<\s*"ACCEPTED"', r.out), re.search(r'<<\s*"PROGRESS"', r.out)
    if not ma or not mp:
        raise lib.ToolError("Trace_DebugLayout: no postcondition output\n" + r.out[-3000:])
    accepted = set(int(x) for x in re.findall(r"\d+", r.out[ma.end():mp.start()]))
    tail = r.out[mp.end():]
    tail = tail[:tail.find("Model checking")] if "Model checking" in tail else tail
    progress = {int(a_): int(b_) for a_, b_ in re.findall(r"(\d+)\s*:>\s*(\d+)", tail)}
    rejected = {}
    for fid, evs in files:
        if fid in accepted:
            continue
        last = progress.get(fid)           # 1-based line number (in the shard file) of the last explained line
        idx = 1 if last is None else (last - start[fid])      # index within the history of the rejected line
        rejected[fid] = min(idx, len(evs) - 1)
    return r.distinct, r.generated, accepted, rejected


# ---- binding self-test: histories with ONE corrupted field / one dropped event must be rejected at that line
def corruptions(files):
    out = []
    def pick(pred):
        for fid, evs in files:
            for k, e in enumerate(evs):
                if pred(evs, k, e):
                    return fid, evs, k
        return None
    def clone(evs):
        return json.loads(json.dumps(evs))
    p = pick(lambda evs, k, e: e["ev"] == "instr" and e["offset"] > 0 and k + 1 < len(evs) and evs[k + 1]["ev"] == "instr")
    if p:
        fid, evs, k = p
        c = clone(evs); c[k]["offset"] += 4
        out.append(("instr_offset_plus_4", c, k))
        c = clone(evs); del c[k]
        out.append(("instr_event_dropped", c, k))
    p = pick(lambda evs, k, e: e["ev"] == "label" and e["insrc"] and e["before"] and k > 0 and evs[k - 1]["ev"] == "instr" and evs[k - 1]["offset"] == max(e["before"]))
    if p:       # the label recorded at the start of the instruction before it instead of at its end
        fid, evs, k = p
        c = clone(evs); c[k]["offset"] = c[k - 1]["offset"]; c[k - 1], c[k] = c[k], c[k - 1]
        out.append(("label_before_its_instruction", c, k - 1))
    p = pick(lambda evs, k, e: e["ev"] == "label" and e["insrc"] and e["time"] > 0)
    if p:
        fid, evs, k = p
        c = clone(evs); c[k]["time"] -= 1
        out.append(("label_time_minus_1", c, k))
    p = pick(lambda evs, k, e: e["ev"] == "end" and k > 0 and evs[k - 1]["ev"] == "instr")
    if p:       # end offset that misses the last instruction
        fid, evs, k = p
        c = clone(evs); c[k]["offset"] = c[k - 1]["offset"]
        out.append(("end_misses_last_instruction", c, k))
    p = pick(lambda evs, k, e: e["ev"] == "const" and e["value"].get("t") == "i")
    if p:
        fid, evs, k = p
        c = clone(evs); c[k]["value"]["v"] += 1
        out.append(("const_value_plus_1", c, k))
    p = pick(lambda evs, k, e: e["ev"] == "local")
    if p:
        fid, evs, k = p
        c = clone(evs); c[k]["reg"] += 1
        out.append(("local_reg_plus_1", c, k))
    res = []
    for n, (name, evs, k) in enumerate(out):
        base = evs[0]["id"]
        evs[0] = dict(evs[0], id=900001 + n, corrupted=name)
        res.append((900001 + n, name, evs, k, base))
    return res


def ev_class(prog, e):
    k = e.get("ev")
    if k == "label":
        return "label:%s" % ("source" if e.get("insrc") else "generated")
    if k == "local":
        return "local:%s" % ("temp" if e.get("name", "").startswith("temp") else "named")
    return k


def gen_programs(chk, n):
    progs = []
    for k in range(n):
        fmt, game = FORMATS[k % len(FORMATS)]
        rng = __import__("random").Random(chk.seed * 1000003 + k)
        progs.append(Gen(rng, fmt, game).program())
    return progs


ID0 = 1001        # history ids start here (never 1..n, so TLC prints the progress map as a function)


def run(chk, replay=None):
    quick = chk.tier == "quick"
    wd = lib.workdir("c18")
    if replay:
        case = json.load(open(replay))["case"]
        progs = [case["program"]]
        for s in progs[0]["scripts"]:
            s["key"] = tuple(s["key"])
    else:
        progs = gen_programs(chk, 396 if quick else 10000)
    with ThreadPoolExecutor(max_workers=8) as ex:
        results = list(ex.map(compile_one, [(wd, n, p) for n, p in enumerate(progs)]))
    files = []
    per_fmt = {}
    for prog, res in zip(progs, results):
        tag = prog["fmt"] + prog["game"]
        chk.add("programs_generated")
        if res.get("panic"):
            chk.report("panic:%s:%s" % (tag, (re.search(r"panicked at ([^\n]*)", res["stderr"]) or [None, "?"])[1][:60]),
                       "compiling with --output-debug-info panics: %s" % res["stderr"][-300:], {"program": prog, "stderr": res["stderr"]})
            continue
        if res["rc"] != 0:
            chk.add("rejected")
            per_fmt.setdefault(tag, [0, 0])[1] += 1
            if os.environ.get("C18_SHOW_REJECTED"):
                print("REJECTED", tag, res["stderr"][:400])
            continue
        if "missing" in res:
            chk.report("nofile:%s" % tag, "successful compile did not write the binary / debug info: %s" % res["missing"], {"program": prog})
            continue
        per_fmt.setdefault(tag, [0, 0])[0] += 1
        try:
            evs = events_for(prog, res["dbg"], res["bin"], res["n"] + ID0)
        except (LayoutError, struct.error) as e:
            chk.report("layout:%s" % tag, "cannot walk the scripts of the written file: %s" % e, {"program": prog})
            continue
        files.append((res["n"] + ID0, evs))
    chk.set("compiled_per_format", {k: v[0] for k, v in sorted(per_fmt.items())})
    chk.set("rejected_per_format", {k: v[1] for k, v in sorted(per_fmt.items()) if v[1]})
    selftest = corruptions(files) if not replay else []
    nsh = 1 if len(files) < 16 else (5 if quick else 8)
    shards = [files[j::nsh] for j in range(nsh)]
    shards[0] = shards[0] + [(cid, evs) for cid, _name, evs, _k, _b in selftest]
    with ThreadPoolExecutor(max_workers=nsh) as ex:
        outs = list(ex.map(judge_shard, [(wd, j, sh) for j, sh in enumerate(shards)]))
    by_id = {n + ID0: p for n, p in enumerate(progs)}
    ev_by_id = dict(files)
    kinds = {}
    all_rejected = {}
    all_accepted = set()
    for st, gen, accepted, rejected in outs:
        chk.add("states", st)
        chk.add("transitions", gen)
        all_rejected.update(rejected)
        all_accepted |= accepted
        for fid in accepted:
            if fid < 900000:
                chk.add("histories_accepted")
                chk.add("traces_validated_against_impl")
        for fid, idx in rejected.items():
            if fid >= 900000:
                continue
            chk.add("traces_validated_against_impl")
            prog = by_id[fid]
            e = ev_by_id[fid][idx]
            tag = prog["fmt"] + prog["game"]
            chk.report("reject:%s:%s" % (tag, ev_class(prog, e)),
                       "debug info of a %s program is not explained by the layout specification at event %s" % (tag, json.dumps(e)[:300]),
                       {"program": dict(prog, scripts=[dict(s_, key=list(s_["key"])) for s_ in prog["scripts"]]), "rejected_event": e, "event_index": idx})
    st_report = {}
    for cid, name, evs, k, base in selftest:
        if base in all_rejected:      # the uncorrupted history is itself rejected (reported above): nothing to learn from its corruption
            st_report[name] = "skipped: the base history %d is itself rejected" % base
            continue
        if cid in all_accepted:
            raise lib.ToolError("binding self-test: the corrupted history `%s` was ACCEPTED by Trace_DebugLayout" % name)
        if cid not in all_rejected:
            raise lib.ToolError("binding self-test: corrupted history `%s` neither accepted nor rejected" % name)
        st_report[name] = "rejected at line %d (corrupted line %d): %s" % (all_rejected[cid], k, json.dumps(evs[min(all_rejected[cid], len(evs) - 1)])[:160])
        if all_rejected[cid] != k:
            raise lib.ToolError("binding self-test: corrupted history `%s` rejected at line %d, corruption is at line %d" % (name, all_rejected[cid], k))
    chk.set("binding_selftest", st_report)
    feat = {}
    def bump(k, n=1):
        feat[k] = feat.get(k, 0) + n
    for fid, evs in files:
        sizes = []
        for e in evs:
            kinds[e["ev"]] = kinds.get(e["ev"], 0) + 1
            if e["ev"] == "script":
                sizes = e["sizes"]
                bump("scripts_with_varying_instruction_sizes", 1 if len(set(sizes)) > 1 else 0)
                bump("scripts_empty", 1 if not sizes else 0)
            elif e["ev"] == "label":
                bump("labels_from_source" if e["insrc"] else "labels_compiler_generated")
                if e["offset"] == sum(sizes):
                    bump("labels_at_script_end")
            elif e["ev"] == "local":
                bump("locals_temporaries" if e["name"].startswith("temp") else "locals_named")
        text = by_id[fid]["text"]
        bump("programs_with_difficulty_switch", 1 if re.search(r"\d:[-\d]", text) and by_id[fid]["fmt"] == "ecl" else 0)
        bump("programs_with_furigana_string", 1 if '"|' in text else 0)
    chk.set("features", feat)
    chk.set("events", kinds)
    for fid, evs in files[:2]:
        chk.sample({"format": by_id[fid]["fmt"] + by_id[fid]["game"], "source": by_id[fid]["text"][:600], "events": evs[:6]})
    chk.set("rule", "each history = one real compilation (binary + debug info); accepted only if every debug-info entry is explained by "
                    "DebugLayout against the instruction sizes read from the binary")
    chk.assume("instructions are attributed to source statements through the debug-info spans (selection of witness instructions only)")
    chk.assume("only user-written constants and source labels are judged for value/time; generated labels for position only")
    return files
