"""C14 — difficulty labels and switches select exactly the stated difficulties (Mode G, both directions).

(a) masks: Gen_DiffMask (TLC) enumerates flag-definition sets and checks DiffMask in-model; the harness
    defines each set through a real mapfile, lets the real Raiser print the label of every mask byte and
    the real parser + Lowerer compile the printed script again; Check_DiffMask (TLC) evaluates
    LabelToMask(printed label, defs) = mask /\\ recompiled byte = mask on every (set, mask) pair.
(b) switches: Gen_DiffSwitch (TLC) enumerates statements with difficulty switches and checks in-model
    that the documented expansion satisfies ExactlyOne; the harness compiles every statement with the
    real pipeline; Check_DiffSwitch (TLC) evaluates ExactlyOne on the instructions really emitted.
This driver holds no difficulty semantics: it moves files, joins rows by id and compares for equality."""
import json, os, re
from concurrent.futures import ThreadPoolExecutor
from . import lib

LEVEL = "model_checking"
MANIFEST = dict(
    design='DESIGN.md §4 C14 (+ design_notes/C14.md)',
    technique='TLA+ specifications DiffMask / DiffSwitch model-checked by TLC; TLC enumerates flag-definition sets x all 256 masks and '
              'switch statements (all hole patterns), the real mapfile reader / Raiser / parser / Lowerer are driven on every case, and '
              'TLC evaluates LabelToMask and ExactlyOne on what the real code printed and emitted (spec -> impl replay, impl -> spec validation)',
    text='(a) For every flag-definition set of the family (which bits are named, which are on by default, permuted digits, letters, '
         'redefinitions; quick 23 sets, thorough 1082 incl. all 256 default-on sets under two alphabets) and all 256 mask bytes the label the '
         'real decompiler prints must denote that mask under the TLA+ transcription of the label syntax (LabelToMask) and the printed '
         'script must compile back to the same byte. (b) Statements with 1-3 difficulty switches of 2-8 cases (every hole pattern for the '
         'stated sizes), nested switches, assignments, register cases, inside labelled blocks, under every label, with and without '
         'default-on flags, plus seeded random ones, are compiled with the real pipeline and TLC evaluates ExactlyOne on the emitted copies '
         '(one applicable copy per permitted level carrying Select(cases, level); none on excluded levels; default-on bits as the label set them). '
         'In-model: LabelToMask(PrintLabel(m)) = m on every (set, mask); the documented expansion satisfies ExactlyOne on every statement.',
    note='Trusted: TLC, CommunityModules Json, the harness (mapfile text, JSON -> source rendering, lexical extraction of the label from the '
         'printed statement, little-endian decoding of int args). Not decided here: the decompile direction recognize_diff_switch (C01 / C07 '
         'territory), switches whose cases need temporaries inside call arguments, float cases. Duplicate flag names (F7) and nested switches '
         'finer than the outer switch are open findings (findings.d/C14.json).',
)

KEY_DUP = "flagdefs:duplicate-name"
KEY_NESTED = "switch:nested:inner-finer-than-outer"


def tlc_pair(jobs):
    """run several TLC jobs concurrently: jobs = [(module, kwargs)] -> [TlcResult]"""
    with ThreadPoolExecutor(max_workers=len(jobs)) as ex:
        futs = [ex.submit(lib.tlc, m, **kw) for m, kw in jobs]
        return [f.result() for f in futs]


def slug(s):
    return re.sub(r"[^A-Za-z0-9]+", "-", s).strip("-")[:50]


# ------------------------------------------------------------------------------------------ (a)
def run_masks_harness(chk, wd, defsets):
    path = os.path.join(wd, "defsets.ndjson")
    lib.write_ndjson(path, defsets)
    p = lib.vh(["c14", "masks", path])
    meta = {d["id"]: d for d in defsets}
    rows = []
    for line in p.stdout.splitlines():
        o = json.loads(line)
        d = meta[o["id"]]
        what = None
        if d["dup"] and "raise_err" in o and "ambiguous" in o["raise_err"]:
            # a definition set that leaves one name on two flags is refused with a diagnostic (since the
            # fix recorded in findings.d/C14.json): nothing to print, nothing to judge
            chk.add("duplicate_name_sets_rejected_with_diagnostic")
            continue
        if "panic" in o:
            what = "%s panics (%s): %s" % (o.get("stage"), o["panic"]["loc"], o["panic"]["msg"])
            key = "mask:panic:%s:%s" % (o.get("stage"), lib.norm_loc(o["panic"]["loc"]))
        elif "raise_err" in o or "raise_warn" in o:
            what = "decompiling 256 instructions failed/warned: %s" % (o.get("raise_err") or o.get("raise_warn"))
            key = "mask:raise-diagnostic:%s" % d["fam"]
        elif "compile_err" in o:
            what = "the printed script does not compile: %s" % o["compile_err"]
            key = "mask:printed-script-rejected:%s" % d["fam"]
        elif len(o["labels"]) != 256 or len(o["reparsed"]) != 256 or o["args"] != list(range(256)) or not o["opcodes_ok"]:
            what = "statements/instructions lost or reordered (printed %d, recompiled %d)" % (len(o["labels"]), len(o["reparsed"]))
            key = "mask:statement-count:%s" % d["fam"]
        if what:
            if d["dup"]:
                key = KEY_DUP
            chk.report(key, "flag definitions %s: %s" % (json.dumps(d["defs"]), what), {"part": "mask", "defset": d, "observed": o})
            continue
        # sanity of the harness's own lexical label extraction: the label text in the printed statement is
        # the AST label the Raiser produced (pure equality of two observations)
        for m in range(256):
            al = o["ast_labels"][m]
            if (al is False) != (not o["has_label"][m]) or (al is not False and list(al) != o["labels"][m]):
                raise lib.ToolError("label extraction mismatch for mask %d: %r vs %r" % (m, al, o["stmts"][m]))
        rows.append({"id": o["id"], "fam": d["fam"], "defs": d["defs"], "dup": d["dup"], "explain": False,
                     "labels": o["labels"], "has_label": o["has_label"], "reparsed": o["reparsed"], "stmts": o["stmts"]})
    return rows


def shard(rows, n):
    k = max(1, min(n, len(rows)))
    return [rows[j::k] for j in range(k)]


def check_masks(chk, wd, rows, shards, workers, timeout):
    """TLC judges the rows.  Returns nothing; reports through chk."""
    byid = {r["id"]: r for r in rows}
    for rnd in range(2):
        parts = shard(rows, shards)
        jobs = []
        for j, part in enumerate(parts):
            rp = os.path.join(wd, "mask_rows_%d.ndjson" % j)
            lib.write_ndjson(rp, [{k: v for k, v in r.items() if k != "stmts"} for r in part])
            jobs.append(("Check_DiffMask", dict(env={"ROWS": rp, "OUT": os.path.join(wd, "mask_verdict_%d.ndjson" % j)},
                                                workers=workers, timeout=timeout, name="c14_cm_%d" % j)))
        results = tlc_pair(jobs)
        again = False
        for j, res in enumerate(results):
            chk.tlc_stats(res)
            for v in lib.read_ndjson(os.path.join(wd, "mask_verdict_%d.ndjson" % j)):
                r = byid[v["id"]]
                if v["nbad"] == 0:
                    continue
                m = v["bad"][0]
                ex = "mask 0x%02X is printed as `%s` " % (m, r["stmts"][m])
                if v["nrecompiled"]:
                    m2 = v["recompiled"][0]
                    ex = "mask 0x%02X is printed as `%s` which compiles to 0x%02X " % (m2, r["stmts"][m2], r["reparsed"][m2])
                what = "flag definitions %s (%s): %d of 256 masks do not come back (%d recompile to another byte); %s" % (
                    " ".join("%d:%s%s" % (d["bit"], d["name"], "+" if d["on"] else "-") for d in r["defs"]), r["fam"], v["nbad"], v["nrecompiled"], ex)
                if r["dup"]:
                    key = KEY_DUP
                else:
                    key = "mask:%s:%s" % ("recompiled-differs" if v["nrecompiled"] else "label-does-not-denote-mask", r["fam"])
                chk.report(key, what, {"part": "mask", "defset": {k: r[k] for k in ("id", "fam", "defs", "dup")}, "verdict": v,
                                       "printed": [r["stmts"][x] for x in v["bad"]]})
            if res.ok:
                continue
            if not re.search(r"Invariant Bijection is violated", res.out):
                raise lib.ToolError("Check_DiffMask: unexpected invariant violation\n" + res.out[-3000:])
            again = True
        if not again:
            return
        if rnd == 1:
            raise lib.ToolError("Check_DiffMask: the invariant is violated although every row is judged outside it")
        # the invariant is violated somewhere: judge every remaining row outside it, which lists all bad masks of all rows
        rows = [r for r in rows if not r["dup"]]
        for r in rows:
            r["explain"] = True


# ------------------------------------------------------------------------------------------ (b)
def random_cases(chk, cases, n, start_id):
    """seeded random statements: 3 switches (+ optionally a plain argument) of 5..8 cases, random hole
    patterns, labels and configurations drawn from the ones the generator used.  Structure only."""
    cfgs = {}
    for c in cases:
        e = cfgs.setdefault(c["cfgi"], {"cfg": c["cfg"], "defs": c["defs"], "labels": []})
        for l in (c["st"]["own"], c["st"]["outer"]):
            if l not in e["labels"]:
                e["labels"].append(l)
    keys = sorted(cfgs)
    rng = chk.rng
    regs = ["r1001", "r1002", "r1003", "r1004", "r1005"]
    out = []
    for k in range(n):
        ci = rng.choice(keys)
        cfg = cfgs[ci]
        ncase = rng.randint(5, 8)
        args = []
        for s in (1, 2, 3):
            cs = []
            for p in range(ncase):
                if p > 0 and rng.random() < 0.5:
                    cs.append({"k": "hole"})
                elif rng.random() < 0.25:
                    cs.append({"k": "var", "id": rng.choice(regs), "sig": "$"})
                else:
                    cs.append({"k": "int", "v": 100 * s + 10 + p})
            args.append({"k": "ds", "cases": cs})
        if rng.random() < 0.4:
            args.insert(rng.randint(0, 3), {"k": "int", "v": 7})
        own = rng.choice(cfg["labels"])
        outer = rng.choice(cfg["labels"]) if rng.random() < 0.3 else {"has": False, "chars": []}
        out.append({"id": start_id + k, "fam": "random", "cfg": cfg["cfg"], "cfgi": ci, "defs": cfg["defs"], "finer": False, "toponly_ok": True,
                    "st": {"form": "call", "args": args, "own": own, "outer": outer}})
    return out


def run_switch_harness(chk, wd, cases):
    path = os.path.join(wd, "cases.ndjson")
    lib.write_ndjson(path, cases)
    p = lib.vh(["c14", "switch", path])
    obs = {}
    for line in p.stdout.splitlines():
        o = json.loads(line)
        obs[o["id"]] = o
    rows = []
    for c in cases:
        o = obs.get(c["id"])
        if o is None:
            raise lib.ToolError("harness lost switch case %s" % c["id"])
        if "panic" in o:
            key = KEY_NESTED if c["finer"] else "switch:panic:%s" % lib.norm_loc(o["panic"]["loc"])
            chk.report(key, "compiling `%s` panics at %s: %s" % (" ".join(o["text"].split()), o["panic"]["loc"], o["panic"]["msg"]),
                       {"part": "switch", "case": c, "observed": o})
        elif "rejected" in o:
            chk.report("switch:rejected:%s" % c["fam"], "`%s` is rejected: %s" % (" ".join(o["text"].split()), o["rejected"]),
                       {"part": "switch", "case": c, "observed": o})
        elif o.get("warn"):
            chk.report("switch:warning:%s" % c["fam"], "`%s` compiles with a warning: %s" % (" ".join(o["text"].split()), o["warn"]),
                       {"part": "switch", "case": c, "observed": o})
        else:
            rows.append(dict(c, copies=o["copies"], text=o["text"], explain=False))
    return rows


def check_switches(chk, wd, rows, shards, workers, timeout):
    byid = {r["id"]: r for r in rows}
    counts = {"finer_rows": 0, "finer_rows_violating": 0, "finer_rows_predicted_by_top_only_model": 0}
    seen_verdict = set()
    for rnd in range(2):
        parts = shard(rows, shards)
        jobs = []
        for j, part in enumerate(parts):
            rp = os.path.join(wd, "switch_rows_%d.ndjson" % j)
            lib.write_ndjson(rp, [{k: v for k, v in r.items() if k not in ("text", "toponly_ok", "cfg", "cfgi", "fam")} for r in part])
            jobs.append(("Check_DiffSwitch", dict(env={"ROWS": rp, "OUT": os.path.join(wd, "switch_verdict_%d.ndjson" % j)},
                                                  workers=workers, timeout=timeout, name="c14_cs_%d" % j)))
        results = tlc_pair(jobs)
        again = False
        for j, res in enumerate(results):
            chk.tlc_stats(res)
            for v in lib.read_ndjson(os.path.join(wd, "switch_verdict_%d.ndjson" % j)):
                r = byid[v["id"]]
                if v["id"] in seen_verdict:
                    continue
                seen_verdict.add(v["id"])
                if r["finer"]:
                    counts["finer_rows"] += 1
                    if not v["ok"]:
                        counts["finer_rows_violating"] += 1
                        if not r["toponly_ok"]:
                            counts["finer_rows_predicted_by_top_only_model"] += 1
                if v["ok"]:
                    continue
                text = " ".join(r["text"].split())
                what = "%s (flags %s): level %d: %s; emitted %s" % (text, r["cfg"], v["level"], v["why"], json.dumps(r["copies"]))
                key = KEY_NESTED if r["finer"] else "switch:%s:%s" % (r["fam"], slug(v["why"]))
                chk.report(key, what, {"part": "switch", "case": {k: r[k] for k in ("id", "fam", "cfg", "cfgi", "defs", "st", "finer", "toponly_ok")},
                                       "text": r["text"], "copies": r["copies"], "verdict": v})
            if res.ok:
                continue
            if not re.search(r"Invariant Holds is violated", res.out):
                raise lib.ToolError("Check_DiffSwitch: unexpected invariant violation\n" + res.out[-3000:])
            again = True
        if not again:
            return counts
        if rnd == 1:
            raise lib.ToolError("Check_DiffSwitch: the invariant is violated although every row is judged outside it")
        # the invariant is violated somewhere: judge every remaining row outside it (verdict + failing clause per row)
        rows = [r for r in rows if not r["finer"]]
        for r in rows:
            r["explain"] = True
    return counts


# ------------------------------------------------------------------------------------------ driver
def run(chk, replay=None):
    quick = chk.tier == "quick"
    tier = "quick" if quick else "thorough"
    wd = lib.workdir("c14")
    tmo = 900 if quick else 3000
    if replay:
        case = json.load(open(replay))["case"]
        if case["part"] == "mask":
            d = dict(case["defset"])
            rows = run_masks_harness(chk, wd, [d])
            check_masks(chk, wd, rows, 1, 4, tmo)
            chk.add("traces_validated_against_impl", 256 * len(rows))
        else:
            c = dict(case["case"])
            rows = run_switch_harness(chk, wd, [c])
            check_switches(chk, wd, rows, 1, 4, tmo)
            chk.add("traces_validated_against_impl", len(rows))
        return

    # 1. TLC: the two families + in-model facts (concurrently, 4 workers each)
    defs_path = os.path.join(wd, "gen_defsets.ndjson")
    cases_path = os.path.join(wd, "gen_cases.ndjson")
    g1, g2 = tlc_pair([
        ("Gen_DiffMask", dict(cfg="Gen_DiffMask_%s.cfg" % tier, env={"OUT": defs_path}, workers=4, timeout=tmo, name="c14_gm")),
        ("Gen_DiffSwitch", dict(cfg="Gen_DiffSwitch_%s.cfg" % tier, env={"OUT": cases_path}, workers=4, timeout=tmo, name="c14_gs")),
    ])
    for mod, g in (("Gen_DiffMask", g1), ("Gen_DiffSwitch", g2)):
        if not g.ok:
            raise lib.ToolError("%s: an in-model fact of the specification does not hold (the spec is inconsistent)\n%s" % (mod, g.out[-3000:]))
        chk.tlc_stats(g)
    chk.set("in_model_states_masks", g1.distinct)
    chk.set("in_model_states_switches", g2.distinct)
    defsets = lib.read_ndjson(defs_path)
    cases = lib.read_ndjson(cases_path)
    cases += random_cases(chk, cases, 300 if quick else 6000, len(cases) + 1)

    # 2. the real code
    mrows = run_masks_harness(chk, wd, defsets)
    srows = run_switch_harness(chk, wd, cases)
    chk.set("flag_definition_sets", len(defsets))
    chk.set("flag_definition_sets_with_duplicate_names", sum(1 for d in defsets if d["dup"]))
    chk.set("mask_rows", 256 * len(mrows))
    chk.set("switch_statements", len(srows))
    chk.set("switch_statements_random", sum(1 for r in srows if r["fam"] == "random"))
    fams = {}
    for r in srows:
        fams[r["fam"]] = fams.get(r["fam"], 0) + 1
    chk.set("switch_statements_by_family", fams)
    chk.set("emitted_copies", sum(len(r["copies"]) for r in srows))

    # 3. TLC judges what the real code did (masks and switches concurrently)
    with ThreadPoolExecutor(max_workers=2) as ex:
        if quick:
            f1 = ex.submit(check_masks, chk, wd, mrows, 1, 4, tmo)
            f2 = ex.submit(check_switches, chk, wd, srows, 1, 4, tmo)
        else:
            f1 = ex.submit(check_masks, chk, wd, mrows, 4, 1, tmo)
            f2 = ex.submit(check_switches, chk, wd, srows, 4, 1, tmo)
        f1.result()
        counts = f2.result()
    for k, v in counts.items():
        chk.set(k, v)
    chk.add("traces_validated_against_impl", 256 * len(mrows) + len(srows))

    th08 = next((r for r in mrows if r["fam"] == "th08.eclm"), None)
    if th08:
        chk.sample({"flags": "th08.eclm", "mask_0xD3_printed": th08["stmts"][0xD3], "mask_0x0F_printed": th08["stmts"][0x0F],
                    "recompiled": [th08["reparsed"][0xD3], th08["reparsed"][0x0F]]})
    for fam in ("double", "in-block", "random"):
        r = next((r for r in srows if r["fam"] == fam and len(r["copies"]) > 1), None)
        if r:
            chk.sample({"family": fam, "flags": r["cfg"], "statement": " ".join(r["text"].split()), "copies": r["copies"]})
    chk.set("exhaustive", True)
    chk.set("rule", "masks: every mask byte 0..255 x every definition set of Gen_DiffMask (%s tier); switches: every hole pattern for the "
                    "sizes stated in Gen_DiffSwitch (%s tier) + seeded random 3-switch statements of 5..8 cases" % (tier, tier))
    chk.assume("difficulty levels are the flag bits that are not on by default; a switch position p stands for bit p")
    chk.assume("a label replaces the label of the enclosing block (difficulty.rs diff_label_nesting_semantics)")
    chk.assume("nothing is demanded on permitted difficulty bits beyond the switch's last position (truth emits no copy there)")
    chk.assume("call arguments whose switch cases need temporaries, float cases and the decompile direction are not covered here")
