"""C19 — output is a deterministic function of the inputs (Mode H, exploration).

Every input is run N times through the real CLI, each run a fresh process (fresh hash-map seeds: the
only source of run-to-run variation in a single-threaded tool).  One event per launch (command key,
exit status, sha-256 of output file(s), stdout, stderr); TLC validates the history against
spec/Trace_ToolchainRT.tla: `Deterministic` (spec/ToolchainRT.tla) is a guard of every tool event.
The inputs are built to have >= 2 *competing entries* wherever a hash map might be iterated into
output.  No reference semantics here: launching, hashing, and labelling of what TLC rejected.
"""
import json, os, random, re
from concurrent.futures import ThreadPoolExecutor
from math import factorial
from . import lib, c01
from .c01 import LANGS, base_event, cid, launch, read_if

LEVEL = "exploration"
MANIFEST = dict(
    design='DESIGN.md §4 C19, §6 (finding F5), §1 (Mode H)',
    technique='trace validation by TLC of a recorded history of repeated real truth-core launches against the TLA+ L3 contract (spec/ToolchainRT.tla: memo : CmdKey -> Outcome must stay a function = Deterministic)',
    text='Each input (command line + content-addressed input files) is launched N times (quick 5, thorough 25) as a fresh process; one event per launch records the command key and the outcome (exit status, sha-256 of the output file incl. debug-info where requested, of stdout and of stderr). TLC validates the whole history against Trace_ToolchainRT: an event whose key is already in the memo must carry the remembered outcome. Inputs: hand-built families with k >= 2 competing entries wherever a hash map may be iterated into output (registers used under several names, several too-complex expressions with several holders, mapfiles with several enums / duplicate names / unknown sections, several unknown-signature opcodes, several errors in one file, several unused labels / scripts / table entries, several suspicious enum uses), plus compile AND decompile (with option sets, widths and a user mapfile) of a seeded sample of the C01 generator programs in all formats. Determinism is only falsifiable: an order dependence among k entries is missed with probability (1/k!)^(N-1).',
    note='Trusted: TLC + CommunityModules Json; sha-256 as content identity. TLA+ contributes the function-ness invariant and nothing about why outputs would differ. Only hash-seed nondeterminism is exercised (same machine, same paths, same environment).',
)


# ------------------------------------------------------------------------------------------------
# Families with competing entries.  Each returns a list of inputs:
#   dict(name, lang, kind="compile"|"decompile", source=..., mapfile=None|text, opts=[], width=None, k=<competing entries>, extra=[cli flags])
def fam_register_names():
    out = []
    # ECL th07 / th08: parameters live in registers; using the register as well gives one warning per register
    for lang, iregs, fregs in (("ecl07", [10029, 10030, 10031, 10032], [10033, 10034, 10035, 10036]),
                               ("ecl08", [10053, 10054, 10055, 10056], [10057, 10058, 10059, 10060])):
        for ni, nf in ((2, 0), (1, 1), (2, 2), (4, 0), (4, 4), (3, 1)):
            params = ["int a%d" % j for j in range(ni)] + ["float b%d" % j for j in range(nf)]
            body = ["    ins_%d(a%d);" % (45 if lang == "ecl07" else 2, j) for j in range(ni)]
            body += ["    ins_%d(b%d);" % (40 if lang == "ecl07" else 37, j) for j in range(nf)]
            body += ["    $REG[%d] = %d;" % (iregs[j], j) for j in range(ni)]
            body += ["    %%REG[%d] = %d.0;" % (fregs[j], j) for j in range(nf)]
            src = "script timeline0 {}\n\nvoid sub0(%s) {\n%s\n}\n" % (", ".join(params), "\n".join(body))
            out.append(dict(name="regnames-%s-%di%df" % (lang, ni, nf), lang=lang, kind="compile", source=src, k=ni + nf))
    return out


ANM_HEAD = c01.ANM_ENTRY % dict(path="a.png", has_data="false", w=4, h=4, fmt=3, ox=0, oy=0, ck=0, mp=0, lrs="false",
                                sprites="        sprite0: {id: 0, x: 0.0, y: 0.0, w: 1.0, h: 1.0},\n")


def fam_too_complex():
    out = []
    deep_i = "(($REG[10000] * 2 + 1) * (($REG[10001] * 3 + 1) * (($REG[10002] * 5 + 1) * (($REG[10003] * 7 + 1) * ($REG[10000] * 9 + 1)))))"
    deep_f = "((%REG[10004] * 2.0 + 1.0) * ((%REG[10005] * 3.0 + 1.0) * ((%REG[10006] * 5.0 + 1.0) * (%REG[10004] * 7.0 + 1.0))))"
    for nscripts in (1, 2, 3):
        for kind in ("i", "f", "if"):
            scripts = []
            for s in range(nscripts):
                lines = []
                if "i" in kind:
                    lines.append("    $REG[10000] = %s;" % deep_i)
                if "f" in kind:
                    lines.append("    %%REG[10004] = %s;" % deep_f)
                scripts.append("script script%d {\n%s\n}\n" % (s, "\n".join(lines)))
            out.append(dict(name="toocomplex-anm12-%d%s" % (nscripts, kind), lang="anm12", kind="compile", source=ANM_HEAD + "".join(scripts),
                            k=max(2, nscripts * len(kind))))
    # ECL: several subs, each too complex
    for lang, regs in (("ecl07", (10000, 10001, 10002, 10003, 10012, 10013, 10014)), ("ecl06", (-10001, -10002, -10003, -10004, -10009, -10010, -10011))):
        expr = "$REG[%d]" % regs[0]
        for r in regs[1:] + regs[:3]:
            expr = "(($REG[%d] * 3 + 1) * %s)" % (r, expr)
        subs = "".join("void sub%d() {\n    $REG[%d] = %s;\n}\n" % (j, regs[0], expr) for j in range(3))
        out.append(dict(name="toocomplex-%s-3subs" % lang, lang=lang, kind="compile", source="script timeline0 {}\n" + subs, k=3))
    return out


def fam_mapfiles():
    out = []
    anm_src = ANM_HEAD + "script script0 {\n    ins_75(1);\n    ins_75(2);\n    ins_76(0, 1, 3);\n    ins_72(1);\n    $REG[10000] = 3;\n}\n"
    # >= 2 enums; several names for the same opcode / register; several unknown sections; enum clashes
    enums = "".join('!enum(name="E%d")\n%s' % (j, "".join("%d E%d_v%d\n" % (v, j, v) for v in range(4))) for j in range(5))
    shared = '!enum(name="P")\n1 Shared\n2 OnlyP\n!enum(name="Q")\n1 Shared\n3 OnlyQ\n!enum(name="R")\n1 Shared\n'
    dupnames = "!ins_names\n75 same\n76 same\n77 same\n78 other\n79 other\n!gvar_names\n10000 rr\n10001 rr\n10002 qq\n10003 qq\n"
    unknown = "!zzz_one\n1 a\n!aaa_two\n1 b\n!mmm_three\n1 c\n"
    sigs = '!ins_signatures\n75 S(enum="E0")\n76 S(enum="E1")S(enum="E2")S(enum="E3")\n'
    for name, body, k in (("enums5", enums, 5), ("enums5+sigs", enums + sigs, 5), ("shared-const", shared, 3), ("dupnames", dupnames, 4),
                          ("unknown-sections", unknown, 3), ("all", enums + sigs + shared + dupnames + unknown, 5)):
        mf = "!anmmap\n" + body
        # (the debug-info document lists every const the mapfile defines: its order is part of the output)
        out.append(dict(name="map-%s-compile" % name, lang="anm12", kind="compile", source=anm_src, mapfile=mf, k=k, extra=["--output-debug-info", "dbg.json"]))
        out.append(dict(name="map-%s-decompile" % name, lang="anm12", kind="decompile", source=anm_src, mapfile=mf, k=k))
        out.append(dict(name="map-%s-decompile-raw" % name, lang="anm12", kind="decompile", source=anm_src, mapfile=mf, k=k,
                        opts=["--no-intrinsics", "--no-arguments"]))
    # sources that use the enum constants: qualified, unqualified (ambiguous -> error), and in the wrong enum (suspicious)
    use = ANM_HEAD + ("script script0 {\n    ins_75(E0.E0_v1);\n    ins_75(E1_v2);\n    ins_76(E2_v1, E3_v1, E0_v1);\n    ins_76(E1.E1_v1, E2.E2_v2, E3.E3_v3);\n"
                      "    ins_75(Shared);\n    ins_75(OnlyP);\n    ins_75(OnlyQ);\n    ins_77(Shared);\n}\n")
    out.append(dict(name="map-enum-uses", lang="anm12", kind="compile", source=use, mapfile="!anmmap\n" + enums + sigs + shared, k=5, extra=["--output-debug-info", "dbg.json"]))
    # ECL mapfile with timeline names and difficulty flags
    ecl_mf = ("!eclmap\n!ins_names\n45 foo\n40 foo\n59 bar\n!timeline_ins_names\n0 spawn\n2 spawn\n!gvar_names\n10000 A\n10001 A\n"
              "!difficulty_flags\n0 E-\n1 N-\n2 H-\n3 L-\n" + enums)
    ecl_src = "script timeline0 {\n    ins_0(sub0, 1.0, 2.0, 3.0, 4, 5, 6);\n    ins_2(sub0, 1.0, 2.0, 3.0, 4, 5, 6);\n}\nvoid sub0() {\n    ins_45(3 : 4 : 5 : 6);\n    ins_40(1.0);\n    ins_59(1);\n    $REG[10000] = $REG[10001];\n}\n"
    out.append(dict(name="map-ecl-dups-compile", lang="ecl07", kind="compile", source=ecl_src, mapfile=ecl_mf, k=5, extra=["--output-debug-info", "dbg.json"]))
    out.append(dict(name="map-ecl-dups-decompile", lang="ecl07", kind="decompile", source=ecl_src, mapfile=ecl_mf, k=5))
    return out


def fam_unknown_opcodes():
    out = []
    for lang, head, wrap in (("anm12", ANM_HEAD, "script script0 {\n%s}\nscript script1 {\n%s}\n"),
                             ("ecl07", "script timeline0 {\n    ins_900(@arg0=1, @blob=\"00000000\");\n    ins_901(@arg0=2, @blob=\"\");\n}\n", "void sub0() {\n%s}\nvoid sub1() {\n%s}\n"),
                             ("std12", c01.STD_HEAD_12 % dict(unk=0, objects="", instances=""), "script main {\n%s%s}\n"),
                             ("msg12", "meta {\n    table: {\n        0: {script: \"s0\"},\n        1: {script: \"s1\"},\n    },\n}\n", "script s0 {\n%s}\nscript s1 {\n%s}\n")):
        for k in (2, 5, 9):
            ops = [(200 + 5 * j) if lang == "msg12" else (700 + 13 * j) for j in range(k)]      # (MSG opcodes are one byte)
            a = "".join("    ins_%d(@blob=\"%s\");\n" % (op, "0000803f 01000000" if j % 2 else "") for j, op in enumerate(ops))
            b = "".join("    ins_%d(@blob=\"ffffffff\");\n" % op for op in reversed(ops))
            if lang in ("anm12", "ecl07"):
                a = a.replace("(@blob", "(@mask=0, @blob")
                b = b.replace("(@blob", "(@mask=1, @blob")
            src = head + wrap % (a, b)
            out.append(dict(name="unknown-ops-%s-%d" % (lang, k), lang=lang, kind="decompile", source=src, k=k))
            out.append(dict(name="unknown-ops-%s-%d-noblocks" % (lang, k), lang=lang, kind="decompile", source=src, k=k, opts=["--no-blocks", "--no-intrinsics"], width=20))
    return out


def fam_many_errors():
    out = []
    bad_anm = ANM_HEAD + "".join(
        "script script%d {\n    int x%d = 1.5;\n    ins_75(3.0);\n    ins_70(nosuch%d);\n    nofunc%d();\n    goto nolabel%d;\n    %%REG[10000] = 2;\n}\n" % (j, j, j, j, j)
        for j in range(4))
    out.append(dict(name="errors-anm12-4scripts", lang="anm12", kind="compile", source=bad_anm, k=8))
    bad_ecl = "script timeline0 {\n    ins_0(nosub, 1.0, 2.0, 3.0, 4, 5, 6);\n    ins_0(sub0, 1, 2, 3, 4.0, 5.0, 6.0);\n}\n" + "".join(
        "void sub%d(int a, float b) {\n    ins_45(b);\n    ins_40(a);\n    int y = c%d;\n    sub%d(1);\n    sub9%d();\n}\n" % (j, j, j, j) for j in range(3))
    out.append(dict(name="errors-ecl07-3subs", lang="ecl07", kind="compile", source=bad_ecl, k=8))
    dup = ANM_HEAD + "".join("script dup%d {\n    ins_1();\n}\nscript dup%d {\n    ins_2();\n}\n" % (j, j) for j in range(3)) + \
        "const int c = 1;\nconst int c = 2;\nconst int d = e;\nconst int e = d;\nconst int f = g;\nconst int g = f;\n"
    out.append(dict(name="errors-anm12-redefinitions", lang="anm12", kind="compile", source=dup, k=5))
    msg = ("meta {\n    table_len: 2,\n    table: {\n        0: {script: \"s0\"},\n        1: {script: \"s0\"},\n        2: {script: \"s1\"},\n        3: {script: \"s2\"},\n"
           "        4: {script: \"s3\"},\n    },\n}\nscript s0 {}\nscript s1 {}\nscript s2 {}\nscript s3 {}\nscript s4 {}\nscript s5 {}\n")
    out.append(dict(name="warnings-msg06-unused", lang="msg06", kind="compile", source=msg, k=5))
    msg9 = ("meta {\n    table: {\n        0: {script: \"s0\", flags: 1},\n        1: {script: \"s1\", flags: 2},\n        2: {script: \"s2\", flags: 3},\n    },\n}\n"
            "script s0 {}\nscript s1 {}\nscript s2 {}\nscript s3 {}\nscript s4 {}\n")
    out.append(dict(name="warnings-msg06-flags", lang="msg06", kind="compile", source=msg9, k=5))
    tl = "script 0 timeline0 {}\nscript timeline1 {}\nscript timeline2 {}\nscript 5 timeline5 {}\nscript timeline0 {}\nvoid sub0() {}\n"
    out.append(dict(name="warnings-ecl07-timelines", lang="ecl07", kind="compile", source=tl, k=3))
    diff = "script timeline0 {}\nvoid sub0() {\n" + "".join("    {\"0%d\"}: loop { ins_45(%d); break; }\n    {\"1\"}: if ($REG[10000] == %d) { ins_1(); }\n" % (j % 3 + 1, j, j) for j in range(4)) + "}\n"
    out.append(dict(name="warnings-ecl07-difflabels", lang="ecl07", kind="compile", source=diff, k=8))
    return out


def fam_unused_labels():
    out = []
    for lang, head, wrap in (("anm12", ANM_HEAD, "script script0 {\n%s}\n"), ("ecl07", "script timeline0 {}\n", "void sub0() {\n%s}\n"),
                             ("std08", c01.STD_HEAD_06 % dict(unk=0, name="dm", objects="", instances=""), "script main {\n%s}\n")):
        call = {"anm12": "ins_1();", "ecl07": "ins_1();", "std08": "ins_3();"}[lang]
        for k in (3, 8):
            body = ""
            for j in range(k):
                body += "unused%d:\n    %s\n+%d:\nused%d:\n    %s\n" % (j, call, j + 1, j, call)
            for j in range(k):
                body += "    goto used%d @ %d;\n" % (j, j)
            src = head + wrap % body
            out.append(dict(name="labels-%s-%d-compile" % (lang, k), lang=lang, kind="compile", source=src, k=k, extra=["--output-debug-info", "dbg.json"]))
            out.append(dict(name="labels-%s-%d-decompile" % (lang, k), lang=lang, kind="decompile", source=src, k=k))
            out.append(dict(name="labels-%s-%d-decompile-noblocks" % (lang, k), lang=lang, kind="decompile", source=src, k=k, opts=["--no-blocks"], width=7))
    return out


def fam_competing_intrinsics():
    """a user mapfile gives every intrinsic kind a *second* provider (and the counting jump both of its forms): which
    instruction implements `a = b + c`, `times(..)`, `if (..)`, `-x`, ... must not depend on the run"""
    kinds = []      # (intrinsic, signature)
    for ty, l in (("int", "S"), ("float", "f")):
        for op in ("=", "+=", "-=", "*=", "/=", "%="):
            kinds.append(('AssignOp(op="%s";type="%s")' % (op, ty), l + l))
        for op in ("+", "-", "*", "/", "%"):
            kinds.append(('BinOp(op="%s";type="%s")' % (op, ty), l + l + l))
        for op in ("==", "!=", "<", "<=", ">", ">="):
            kinds.append(('CondJmp(op="%s";type="%s")' % (op, ty), l + l + "ot"))
        kinds.append(('UnOp(op="-";type="%s")' % ty, l + l))
    for fn in ("sin", "cos", "sqrt"):
        kinds.append(('UnOp(op="%s";type="float")' % fn, "ff"))
    kinds += [("Jmp()", "ot"), ("CountJmp()", "Sot"), ('CountJmp(op=">")', "Sot"), ('CountJmp(op="!=")', "Sot")]
    body = ("    $REG[%(i0)d] = $REG[%(i1)d] + $REG[%(i2)d];\n    $REG[%(i0)d] = ($REG[%(i1)d] - 3) * ($REG[%(i2)d] %% 7) / 2;\n"
            "    $REG[%(i0)d] += 2;\n    $REG[%(i0)d] -= $REG[%(i1)d];\n    $REG[%(i0)d] *= 3;\n    $REG[%(i0)d] = -$REG[%(i1)d];\n"
            "    %%REG[%(f0)d] = %%REG[%(f1)d] * 2.0 - %%REG[%(f0)d] / 4.0;\n    %%REG[%(f0)d] += 1.5;\n    %%REG[%(f0)d] = -%%REG[%(f1)d];\n"
            "    %%REG[%(f0)d] = sin(%%REG[%(f1)d]) + cos(%%REG[%(f1)d]) + sqrt(%%REG[%(f1)d]);\n"
            "    times(3) {\n        %(call)s\n    }\n    times($REG[%(i2)d] = 4) {\n        %(call)s\n    }\n"
            "    while ($REG[%(i0)d] < 10) {\n        $REG[%(i0)d] += 1;\n    }\n    do {\n        %(call)s\n    } while (--$REG[%(i1)d]);\n"
            "    if ($REG[%(i0)d] == 3) {\n        %(call)s\n    } else if ($REG[%(i0)d] != 4) {\n        %(call)s\n    } else if (%%REG[%(f0)d] <= 1.0) {\n        %(call)s\n    }\n"
            "    if ($REG[%(i0)d] > $REG[%(i1)d] && $REG[%(i0)d] >= 2 || %%REG[%(f0)d] > 0.5) {\n        %(call)s\n    }\n"
            "    loop {\n        %(call)s\n        break;\n    }\n")
    out = []
    for lang, magic, head, wrap, regs in (
            ("anm12", "!anmmap", ANM_HEAD, "script script0 {\n%s}\n", dict(i0=10000, i1=10001, i2=10002, f0=10004, f1=10005, call="ins_1();")),
            ("anm07", "!anmmap", None, None, None),
            ("ecl07", "!eclmap", "script timeline0 {}\n", "void sub0() {\n%s}\n", dict(i0=10000, i1=10001, i2=10002, f0=10004, f1=10005, call="ins_1();"))):
        if head is None:
            continue
        for which, base in (("dup", 3000), ("dup-reversed", 3000)):
            order = kinds if which == "dup" else list(reversed(kinds))
            mf = magic + "\n!ins_signatures\n" + "".join("%d %s\n" % (base + j, sig) for j, (_, sig) in enumerate(order))
            mf += "!ins_intrinsics\n" + "".join("%d %s\n" % (base + j, intr) for j, (intr, _) in enumerate(order))
            src = head + wrap % (body % regs)
            out.append(dict(name="intrinsics-%s-%s-compile" % (which, lang), lang=lang, kind="compile", source=src, mapfile=mf, k=2))
            out.append(dict(name="intrinsics-%s-%s-decompile" % (which, lang), lang=lang, kind="decompile", source=src, mapfile=mf, k=2))
            out.append(dict(name="intrinsics-%s-%s-decompile-noblocks" % (which, lang), lang=lang, kind="decompile", source=src, mapfile=mf, k=2, opts=["--no-blocks"]))
    return out


FAMILIES = [fam_register_names, fam_too_complex, fam_mapfiles, fam_unknown_opcodes, fam_many_errors, fam_unused_labels, fam_competing_intrinsics]


def c01_sample(chk, quick):
    """compile AND decompile of a seeded sample of the C01 generator programs (every format)."""
    plan = [(lk, fl, 1 if quick else max(1, n)) for lk, fl, n in c01.QUICK_PLAN]
    bins = c01.make_binaries(chk, plan)
    out = []
    rng = random.Random(chk.seed * 101 + 3)
    for b in bins:
        name = "c01-%s-%s-%d" % (b.lang.key, b.flavour, b.idx)
        out.append(dict(name=name + "-compile", lang=b.lang.key, kind="compile", source=b.source, k=0, extra=["--output-debug-info", "dbg.json"] if rng.random() < 0.5 else []))
        opts = rng.choice(c01.OPTSETS)
        out.append(dict(name=name + "-decompile", lang=b.lang.key, kind="decompile", source=b.source, k=0, opts=opts, width=rng.choice(c01.WIDTHS)))
        if b.mapfile:
            out.append(dict(name=name + "-decompile-mapped", lang=b.lang.key, kind="decompile", source=b.source, mapfile=b.mapfile, k=0,
                            opts=rng.choice(c01.OPTSETS), width=rng.choice(c01.WIDTHS)))
    for j, (path, lang) in enumerate(c01.bundled_binaries()):
        out.append(dict(name="bundled-%s" % os.path.basename(path), lang=lang.key, lang_obj=lang, kind="decompile", binary_path=path, k=0,
                        opts=c01.OPTSETS[(j * 7) % 32], width=c01.WIDTHS[j % 6]))
    return out


# ------------------------------------------------------------------------------------------------
HEADER = re.compile(r"^(warning|error|bug)(\[[^\]]*\])?: (.*)$")


def slug(header_line):
    m = HEADER.match(header_line)
    text = m.group(3) if m else header_line
    text = re.sub(r"REG\[-?\d+\]", "REG", text)
    text = re.sub(r"'[^']*'", "", text)
    text = re.sub(r"-?\d+", "", text)
    words = re.findall(r"[A-Za-z]+", text)[:6]
    return "-".join(w.lower() for w in words) or "unknown"


SLUGS = {"register-reg-used-under-multiple-names": "register-multiple-names"}


def label_difference(stream, a, b):
    """a specific key for a nondeterministic stream (a, b: the two differing texts).  Labelling only."""
    la, lb = a.splitlines(), b.splitlines()
    kind = "order" if sorted(la) == sorted(lb) else "differs"
    ha = [l for l in la if HEADER.match(l)]
    hb = [l for l in lb if HEADER.match(l)]
    which = ""
    if ha and hb and sorted(ha) == sorted(hb) and ha != hb:
        for x, y in zip(ha, hb):
            if x != y:
                which = slug(x)
                break
        sev = HEADER.match(ha[0]).group(1) + "s"
        return "%s:%s:%s" % (kind, sev, SLUGS.get(which, which))
    if ha and ha == hb:
        # same diagnostics in the same order; the difference is inside one diagnostic
        blocks_a, blocks_b = a.split("\n\n"), b.split("\n\n")
        for x, y in zip(blocks_a, blocks_b):
            if x != y:
                hx = [l for l in x.splitlines() if HEADER.match(l)]
                which = slug(hx[0]) if hx else "unknown"
                break
        return "%s:%s-body:%s" % (kind, stream, SLUGS.get(which, which))
    for x, y in zip(la, lb):
        if x != y:
            which = re.sub(r"[^A-Za-z]+", "-", x.strip())[:40].strip("-").lower()
            break
    return "%s:%s:%s" % (kind, stream, which or "length")


def run_input(inp, wd, idx, N):
    """all launches for one input; returns (events, record)"""
    lang = inp.get("lang_obj") or LANGS[inp["lang"]]
    cwd = os.path.join(wd, "i%04d" % idx)
    os.makedirs(cwd, exist_ok=True)
    ev = [base_event("reset")]
    rec = dict(name=inp["name"], launches=[], cwd=cwd, mapfile=inp.get("mapfile"))
    map_name, map_id = None, ""
    if inp.get("mapfile"):
        map_name = "user.%sm" % lang.ext
        with open(os.path.join(cwd, map_name), "w", encoding="utf-8") as f:
            f.write(inp["mapfile"])
        map_id = cid(inp["mapfile"])
        ev.append(base_event("import", kind="map", **{"in": map_id}))
    extra_map = ["-m", map_name] if map_name else []
    bin_name = "in." + lang.ext
    data = None
    if inp.get("binary_path"):
        data = read_if(inp["binary_path"])
        with open(os.path.join(cwd, bin_name), "wb") as f:
            f.write(data)
        ev.append(base_event("import", kind="bin", **{"in": cid(data)}))
    else:
        with open(os.path.join(cwd, "src.txt"), "w", encoding="utf-8") as f:
            f.write(inp["source"])
        src_id = cid(inp["source"].encode("utf-8"))
        ev.append(base_event("import", kind="text", **{"in": src_id}))
    n_compile = N if inp["kind"] == "compile" else 1
    extra = list(inp.get("extra", [])) + (extra_map if inp["kind"] == "compile" or not inp.get("binary_path") else [])
    if not inp.get("binary_path"):
        for n in range(n_compile):
            dbg = os.path.join(cwd, "dbg.json")
            if os.path.exists(dbg):
                os.remove(dbg)
            e, data, se, argv = c01.run_compile(lang, cwd, "src.txt", bin_name, map_id=map_id, src_id=src_id, extra=extra)
            e["opts"] = " ".join(inp.get("extra", []))
            if "--output-debug-info" in extra:
                d = read_if(dbg)
                e["out"] = cid((data or b"") + b"\0debug-info\0" + (d if d is not None else b"<none>")) if e["rc"] == 0 else ""
            ev.append(e)
            if inp["kind"] == "compile":
                rec["launches"].append(dict(argv=argv, rc=e["rc"], stderr=se, out=e["out"], so=e["so"], se=e["se"]))
        rec["compile_rc"] = ev[-1]["rc"]
    if inp["kind"] == "decompile" and data is not None:
        bin_id = cid(data)
        for n in range(N):
            e, text, se, argv = c01.run_decompile(lang, cwd, bin_name, "out.txt", inp.get("opts", []), inp.get("width"), map_name, map_id, bin_id, trusted=False)
            ev.append(e)
            rec["launches"].append(dict(argv=argv, rc=e["rc"], stderr=se, out=e["out"], so=e["so"], se=e["se"],
                                        text=text.decode("utf-8", "replace") if text is not None else None))
    return ev, rec


def competing(rec):
    """measured number of competing entries of an input: diagnostics on stderr / names from tables in the output"""
    if not rec["launches"]:
        return 0
    l0 = rec["launches"][0]
    k = len([1 for line in l0["stderr"].splitlines() if HEADER.match(line)])
    k = max(k, l0["stderr"].count("holds this"))
    if rec.get("mapfile"):
        k = max(k, rec["mapfile"].count("!enum("))
    m = re.search(r"The following opcodes were affected: (.*)", l0["stderr"])
    if m:
        k = max(k, len(m.group(1).split(",")))
    if l0.get("text"):
        names = set(re.findall(r"\b(?:label_\d+\w*|[a-z]{3}_(?:op|I|F|tl)\d+|E\d_v\d|Alias\d+|used\d+)\b", l0["text"]))
        k = max(k, len(names))
    return k


def run(chk, replay=None):
    quick = chk.tier == "quick"
    N = 5 if quick else 25
    wd = lib.workdir("c19")
    if replay:
        case = json.load(open(replay))["case"]
        inputs = [case["input"]]
        N = max(N, case.get("launches", N))
        if N < 12:
            N = 12
    else:
        inputs = []
        for fam in FAMILIES:
            inputs += fam()
        inputs += c01_sample(chk, quick)
    with ThreadPoolExecutor(max_workers=8) as ex:
        results = list(ex.map(lambda t: run_input(t[1], wd, t[0], N), enumerate(inputs)))
    sessions = [ev for ev, _ in results]
    rejected = c01.validate_history(chk, sessions, "c19", shards=4)

    nontrivial = set()
    min_k = None
    for inp, (ev, rec) in zip(inputs, results):
        chk.add("evaluations", len(rec["launches"]))
        chk.add("inputs")
        if not rec["launches"]:
            chk.add("inputs_without_launches")      # the source of a decompile input did not compile
            continue
        k = competing(rec)
        rec["k"] = k
        if k >= 2:
            l0 = rec["launches"][0]
            nontrivial.add(cid(json.dumps([l0["argv"], inp.get("source") or inp.get("binary_path"), inp.get("mapfile")])))
            min_k = k if min_k is None else min(min_k, k)
        if inp.get("k", 0) >= 2 and k < 2:
            chk.add("family_inputs_with_fewer_than_2_measured_entries")
    chk.set("distinct_nontrivial", len(nontrivial))
    chk.set("launches_per_input", N)
    chk.set("rule", "an input counts as non-trivial when the first launch shows >= 2 competing entries: >= 2 diagnostics on stderr, >= 2 'holds this' labels in a "
                    "too-complex error, >= 2 opcodes in the unknown-signature list, >= 2 enums in the mapfile on the command line, or >= 2 distinct table-derived names (labels, mapfile aliases, enum constants) in the decompiled text; distinct by "
                    "sha-256 of (command line, input file, mapfile)")
    chk.set("miss_probability", "an order dependence among k competing entries is missed with probability (1/k!)^(N-1) if iteration orders are uniform and "
                                "independent: k=2, N=%d: %.3g; k=3: %.3g; k=4: %.3g" % (N, (1 / 2) ** (N - 1), (1 / 6) ** (N - 1), (1 / 24) ** (N - 1)))
    chk.set("events_rejected", len(rejected))

    # label what TLC rejected
    pos = {}
    for i, (ev, rec) in enumerate(results):
        tool = [e for e in ev if e["cmd"] in ("compile", "decompile")]
        keyed = {}
        for e in tool:
            keyed.setdefault(json.dumps([e[f] for f in ("cmd", "fmt", "game", "opts", "width", "map", "in", "img")]), []).append(e)
        for e in ev:
            pos[e["id"]] = (i, e)
    seen_inputs = set()
    for eid in sorted(rejected):
        i, e = pos[eid]
        inp, (ev, rec) = inputs[i], results[i]
        why = rejected[eid]
        if i in seen_inputs:
            continue
        seen_inputs.add(i)
        ls = rec["launches"]
        if "Deterministic" in why and ls:
            first = ls[0]
            other = next((l for l in ls[1:] if (l["rc"], l["out"], l["so"], l["se"]) != (first["rc"], first["out"], first["so"], first["se"])), None)
            if other is None:
                key, what = "differs:unlocated", "outcomes differ between launches"
            elif other["rc"] != first["rc"]:
                key, what = "differs:exit-status", "exit status %s vs %s" % (first["rc"], other["rc"])
            elif other["se"] != first["se"]:
                key = label_difference("stderr", first["stderr"], other["stderr"])
                what = "stderr differs between launches of the same command"
            elif other["out"] != first["out"]:
                key = label_difference("output", first.get("text") or "", other.get("text") or "") if first.get("text") else "differs:output-file"
                what = "output file differs between launches of the same command"
            else:
                key, what = "differs:stdout", "stdout differs between launches"
            distinct = len(set((l["rc"], l["out"], l["so"], l["se"]) for l in ls))
            what = "%s: %d distinct outcomes in %d launches of `truth-core %s` (input %s, in the replay file)" % (
                what, distinct, len(ls), " ".join(first["argv"]), inp["name"])
        else:
            key, what = "%s:%s" % ("+".join(sorted(why)), inp["name"]), "event rejected by the contract (%s) for input %s" % (", ".join(sorted(why)), inp["name"])
        clean = {k: v for k, v in inp.items() if k != "lang_obj"}
        chk.report(key, what, {"input": clean, "launches": N, "reasons": sorted(why),
                               "stderr_samples": [l["stderr"][:3000] for l in ls[:3]]})

    fams = {}
    for inp, (ev, rec) in zip(inputs, results):
        f = inp["name"].split("-")[0]
        fams[f] = fams.get(f, 0) + 1
    chk.set("inputs_per_family", fams)
    chk.set("min_competing_entries_among_nontrivial", min_k)
    for inp, (ev, rec) in zip(inputs, results):
        if rec["launches"] and rec.get("k", 0) >= 2 and len(chk.cov["samples"]) < 5 and inp["name"].split("-")[0] not in [s["family"] for s in chk.cov["samples"]]:
            l0 = rec["launches"][0]
            chk.sample({"family": inp["name"].split("-")[0], "input": inp["name"], "command": "truth-core " + " ".join(l0["argv"]), "competing_entries": rec["k"],
                        "distinct_outcomes": len(set((l["rc"], l["out"], l["so"], l["se"]) for l in rec["launches"])), "stderr_head": l0["stderr"][:300]})
    chk.set("exhaustive", False)
    chk.assume("only hash-seed nondeterminism is exercised: same machine, same relative paths, same environment for every launch")
    chk.assume("determinism is only falsifiable by repetition; the miss probability per order dependence is stated in coverage.miss_probability")
