#!/usr/bin/env python3
"""Run a property's check against a seeded change WITHOUT touching /repo:
   seedtest.py <patch.diff> <Cxx> [quick|thorough] [base-commit]
Creates a scratch worktree of /repo with the patch applied and a scratch copy of /verif whose harness
depends on it, runs ./check there, prints the outcome, and removes both."""
import os, shutil, subprocess, sys, tempfile, time

def sh(cmd, **kw):
    return subprocess.run(cmd, shell=True, text=True, stdout=subprocess.PIPE, stderr=subprocess.STDOUT, **kw)

def main():
    patch, pid = os.path.abspath(sys.argv[1]), sys.argv[2]
    tier = sys.argv[3] if len(sys.argv) > 3 else "quick"
    base_commit = sys.argv[4] if len(sys.argv) > 4 else "HEAD"     # the /repo commit the patch was written against
    base = tempfile.mkdtemp(prefix="verif-scratch-", dir="/var/tmp")
    repo, verif = os.path.join(base, "repo"), os.path.join(base, "verif")
    try:
        r = sh("git -C /repo worktree add -q --detach %s %s" % (repo, base_commit))
        if r.returncode: print(r.stdout); return 2
        r = sh("git -C %s apply --whitespace=nowarn %s" % (repo, patch))
        if r.returncode: print("patch does not apply:\n" + r.stdout); return 2
        sh("rsync -a --exclude harness/target --exclude work --exclude replays --exclude .git /verif/ %s/" % verif)
        sh("sed -i 's#path = \"/repo\"#path = \"%s\"#' %s/harness/Cargo.toml" % (repo, verif))
        t0 = time.time()
        r = sh("./check %s %s" % (pid, tier), cwd=verif, env=dict(os.environ, VERIF_SCRATCH_REPO=repo))
        out_lines = r.stdout.splitlines()
        lines = [l for l in out_lines if l.startswith(("VIOLATION", "TOOL-ERROR", "  key="))]
        known = [l for l in out_lines if l.startswith("KNOWN-FINDING")]
        print("\n".join(l[:300] for l in lines[:12]))
        print("(%d KNOWN-FINDING lines)" % len(known))
        print("seedtest: property=%s rc=%d wall=%ds" % (pid, r.returncode, time.time() - t0))
        if r.returncode == 2:
            print(r.stdout[-3000:])
        return r.returncode
    finally:
        sh("git -C /repo worktree remove --force %s" % repo)
        shutil.rmtree(base, ignore_errors=True)
        sh("git -C /repo worktree prune")

if __name__ == "__main__":
    sys.exit(main())
