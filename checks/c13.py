"""C13 — every instruction gets exactly the time its labels say (Mode G both directions; the decompile
direction is judged by TLC on the exported trees)."""
import json, os, re, time
from concurrent.futures import ThreadPoolExecutor
from . import lib

LEVEL = "model_checking"
MANIFEST = dict(
    design='DESIGN.md §4 C13, §3 (TimeLabels)',
    technique='TLA+ label rules (TimeLabels.tla) enumerated by TLC: a token machine generates every label/instruction/block sequence within bounds with the time of each instruction (replayed into the real compiler), and every stored time/jump sequence (replayed into the real decompiler, whose printed tree TLC judges with the same rules)',
    text='Compile direction: TLC explores the machine that appends one token (absolute/relative label incl. constant-expression, negative and wrapping deltas, instruction, `{`, `loop {`, `if (..) {`, `}`) at a time, checks on every sequence that the tree-recursive label rules agree with a brace-blind left-to-right fold (times commute with nesting/flattening), and writes every complete program with the expected time per instruction; the harness compiles each with the real pipeline (TestLanguage lowering, and ANM th12 / STD th08 / MSG th06 through the full API with built-in signatures), also runs the real time pass on the block tree before desugaring, and the time sequences must be equal. Decompile direction: TLC enumerates all stored time sequences of length <=5 over {-5,-1,0,3,10} plus one or two jumps (position, target, time argument); the harness builds exactly those instruction lists, runs the real Raiser (and the real STD th08 decompiler incl. loop recovery), prints, re-parses and recompiles; TLC evaluates on each exported tree that the documented meaning of the printed labels reproduces the stored times and the stored jump time arguments (StoredTimes!Verdict), Python only compares recompiled instructions with the stored ones for equality.',
    note='Trusted: TLC, CommunityModules Json, the structural exporter/renderer, the instruction-list builder of the harness (sizes/offsets of the test language and of STD th07-09). break/continue and if/else produced by the decompiler are not read by StoredTimes.tla (counted as unsupported). Times are the in-memory RawInstr.time (file field widths are C03).',
)

PLAIN = {"test": 100, "helper": 100, "anm12": 0, "std08": 3, "msg06": 6}


def tok_class(toks):
    kinds = set()
    for t in toks:
        if t in ("{", "L{", "F{"):
            kinds.add({"{": "block", "L{": "loop", "F{": "if"}[t])
        elif t.startswith("a"):
            kinds.add("abs")
        elif t.startswith("r"):
            kinds.add("rel")
    return "+".join(sorted(kinds)) or "plain"


class Limiter:
    """at most `n` reports per class (each report needs its own key to get its own replay file)"""
    def __init__(self, n=3):
        self.n, self.seen = n, {}

    def key(self, cls):
        k = self.seen.get(cls, 0)
        self.seen[cls] = k + 1
        return None if k >= self.n else (cls if k == 0 else "%s#%d" % (cls, k + 1))


def run_chunks(cmd, rows, wd, tag, formats, chunk=1500, par=6):
    """run the harness on chunks of rows in parallel; returns output objects in input order"""
    parts = [rows[i:i + chunk] for i in range(0, len(rows), chunk)]
    paths = []
    for j, part in enumerate(parts):
        p = os.path.join(wd, "%s_%d.ndjson" % (tag, j))
        lib.write_ndjson(p, part)
        paths.append(p)

    def one(p):
        args = ["c13", cmd, p] + (["formats"] if formats else [])
        return [json.loads(l) for l in lib.vh(args).stdout.splitlines()]
    with ThreadPoolExecutor(max_workers=par) as ex:
        outs = list(ex.map(one, paths))
    res = []
    for part, out in zip(parts, outs):
        if len(out) != len(part):
            raise lib.ToolError("harness lost rows in %s" % tag)
        res.extend(out)
    return res


# ------------------------------------------------------------------------------------------- compile
def gen_label_seqs(tier, wd):
    out = os.path.join(wd, "cases.ndjson")
    r = lib.tlc("Gen_LabelSeqs", cfg="Gen_LabelSeqs_%s.cfg" % tier, env={"OUT": out}, workers=4, timeout=3000, name="c13_gen_labels")
    if not r.ok:
        raise lib.ToolError("Gen_LabelSeqs (%s): in-model invariant failed — the specification itself is inconsistent\n%s" % (tier, r.out[-3000:]))
    return r, lib.read_ndjson(out)


def gen_stored(cfg, wd):
    out = os.path.join(wd, "rows.ndjson")
    r = lib.tlc("Gen_StoredTimes", cfg=cfg, env={"OUT": out}, workers=4, timeout=3000, name="c13_gen_stored")
    if not r.ok:
        raise lib.ToolError("Gen_StoredTimes: in-model invariant failed — the specification itself is inconsistent\n" + r.out[-3000:])
    return r, lib.read_ndjson(out)


def compile_direction(chk, wd, gen, only=None):
    lim = Limiter()
    r, cases = gen
    chk.tlc_stats(r)
    chk.add("generated_programs", len(cases))
    if only is not None:
        cases = [c for c in cases if c["toks"] == only["toks"] and c["fam"] == only["fam"]]
    outs = run_chunks("compile", cases, wd, "compile", formats=True)
    for idx, (c, o) in enumerate(zip(cases, outs)):
        toks, exp = c["toks"], c["exp"]
        cls = tok_class(toks)
        chk.add("traces_validated_against_impl")
        for path, plain in PLAIN.items():
            res = o.get(path)
            if res is None:
                continue     # the format has no such construct (no jumps / no registers)
            chk.add("compiled:" + path)
            rep = {"dir": "compile", "fam": c["fam"], "toks": toks, "path": path, "text": o["text"], "expected": exp, "observed": res}
            if "panic" in res:
                k = lim.key("panic:compile:%s:%s" % (path, lib.norm_loc(res["panic"]["loc"])))
                if k:
                    chk.report(k, "compiling with %s panics: %s\n%s" % (path, res["panic"]["msg"], o["text"]), rep)
                continue
            if "rejected" in res:
                chk.add("rejected")
                k = lim.key("rejected:%s:%s" % (path, cls))
                if k:
                    chk.report(k, "%s rejects a program whose labels are all documented as supported: %s\n%s" % (path, res["rejected"], o["text"]), rep)
                continue
            if res.get("warn"):
                chk.add("compiled_with_warning")
            got = [t for (op, t) in res["instrs"] if op == plain]
            if got != exp:
                k = lim.key("times:%s:%s" % (path, cls))
                if k:
                    chk.report(k, "%s gives the instructions of\n%s the times %s, the label rules say %s" % (path, o["text"], got, exp), rep)
        if idx % 977 == 5 and cls not in ("plain", "abs"):
            chk.sample({"source": o["text"], "expected_times": exp, "observed": {p: o[p].get("instrs") for p in PLAIN if p in o}}, limit=3)


# ----------------------------------------------------------------------------------------- decompile
def judge_shard(args):
    path, tag = args
    return lib.tlc("Obs_StoredTimes", env={"OBS": path}, workers=1, timeout=3000, name=tag, extra=("-continue",), heap="3g")


def decompile_direction(chk, wd, gen, only_row=None, quick=False):
    r, rows = gen
    chk.tlc_stats(r)
    chk.add("generated_stored_sequences", len(rows))
    if only_row is not None:
        rows = [x for x in rows if x["times"] == only_row["times"] and x["jumps"] == only_row["jumps"]
                and x.get("diffs", []) == only_row.get("diffs", [])]
    # quick tier: the real STD th08 decompiler gets every row with a jump and the jump-free rows up to
    # length 4 (its label emitter is the one the Raiser path exercises on all rows)
    if quick:
        with_fmt = [x for x in rows if x["jumps"] or len(x["times"]) <= 4]
        without = [x for x in rows if not (x["jumps"] or len(x["times"]) <= 4)]
    else:
        with_fmt, without = rows, []
    rows = with_fmt + without
    outs = run_chunks("decompile", with_fmt, wd, "decompile_f", formats=True, chunk=1000)
    if without:
        outs += run_chunks("decompile", without, wd, "decompile_t", formats=False, chunk=1000)
    lim = Limiter()
    obs = []       # rows for TLC
    for row, o in zip(rows, outs):
        chk.add("traces_validated_against_impl")
        shape = ("diffgroup" if row.get("diffs") else "jumps%d" % len(row["jumps"]))
        if row.get("diffs"):
            chk.add("difficulty_group_rows")
        for path in ("test", "std08"):
            if path not in o:
                continue
            res = o[path]
            rep = {"dir": "decompile", "path": path, "row": row, "observed": res}
            what = "stored times %s jumps %s%s (%s)" % (row["times"], json.dumps(row["jumps"]),
                                                          " difficulty masks %s" % row["diffs"] if row.get("diffs") else "", path)
            if "tool" in res:
                raise lib.ToolError("cannot build the %s container: %s" % (path, res["tool"]))
            if "panic" in res:
                k = lim.key("panic:decompile:%s:%s" % (path, lib.norm_loc(res["panic"]["loc"])))
                if k:
                    chk.report(k, "decompiling %s panics: %s" % (what, res["panic"]["msg"]), rep)
                continue
            if "rejected" in res:
                k = lim.key("decompile-rejected:%s:%s" % (path, shape))
                if k:
                    chk.report(k, "the decompiler rejects %s: %s" % (what, res["rejected"]), rep)
                continue
            if "unsupported" in res:
                chk.add("unsupported")
                continue
            chk.add("decompiled:" + path)
            if "reparse" in res:
                k = lim.key("reparse:%s:%s" % (path, shape))
                if k:
                    chk.report(k, "the text printed for %s does not compile again: %s\n%s" % (what, json.dumps(res["reparse"])[:300], res["text"]), rep)
                trees = [res["tree"]]
            else:
                if res["recompiled"] != res["stored"]:
                    k = lim.key("recompile:%s:%s" % (path, shape))
                    if k:
                        chk.report(k, "recompiling the text printed for %s gives times %s\n%s" % (what, [i["time"] for i in res["recompiled"]], res["text"]), rep)
                trees = [res["tree2"]] if res["tree2"] == res["tree"] else [res["tree2"], res["tree"]]
                if len(trees) == 2:
                    chk.add("printed_tree_differs_from_ast")
            for t in trees:
                obs.append({"times": row["times"], "jumps": row["jumps"], "diffs": row.get("diffs", []), "tree": t, "path": path, "text": res["text"]})
    # TLC judges every tree with the documented label rules
    shards = (3 if quick else 6) if len(obs) > 600 else 1
    jobs = []
    for j in range(shards):
        p = os.path.join(wd, "obs_%d.ndjson" % j)
        lib.write_ndjson(p, [{"times": x["times"], "jumps": x["jumps"], "tree": x["tree"]} for x in obs[j::shards]])
        jobs.append((p, "c13_obs_%d" % j))
    with ThreadPoolExecutor(max_workers=shards) as ex:
        results = list(ex.map(judge_shard, jobs))
    for j, res in enumerate(results):
        part = obs[j::shards]
        chk.tlc_stats(res)
        m = re.search(r'<<"COUNTS", (\d+), (\d+)>>', res.out)
        bad = re.findall(r'<<"BAD", (\d+), "([^"]*)">>', res.out)
        if m:
            chk.add("trees_judged_ok", int(m.group(1)))
            chk.add("trees_unsupported_construct", int(m.group(2)))
        if res.ok and not m:
            raise lib.ToolError("Obs_StoredTimes printed no counts\n" + res.out[-2000:])
        if not res.ok and not bad:
            raise lib.ToolError("Obs_StoredTimes failed without naming a row\n" + res.out[-3000:])
        if m and int(m.group(1)) + int(m.group(2)) + len(bad) != len(part):
            raise lib.ToolError("Obs_StoredTimes judged %s of %d rows" % (m.groups(), len(part)))
        for idx, verdict in bad:
            x = part[int(idx) - 1]
            k = lim.key("labels:%s:%s:%s" % (x["path"], verdict, "diffgroup" if x.get("diffs") else "jumps%d" % len(x["jumps"])))
            if k:
                chk.report(k, "the labels printed for stored times %s jumps %s (%s) do not mean those times (%s):\n%s"
                           % (x["times"], json.dumps(x["jumps"]), x["path"], verdict, x["text"]),
                           {"dir": "decompile", "path": x["path"], "row": {"times": x["times"], "jumps": x["jumps"], "diffs": x.get("diffs", [])}, "tree": x["tree"], "verdict": verdict})
    for x in obs[7::max(1, len(obs) // 2 - 5)][:2]:
        chk.sample({"stored_times": x["times"], "jumps": x["jumps"], "decompiler": x["path"], "printed": x["text"][-400:]})
    chk.add("trees_judged_by_tlc", len(obs))


def run(chk, replay=None):
    quick = chk.tier == "quick"
    wd = lib.workdir("c13")
    tier = "quick" if quick else "thorough"
    stored_cfg = "Gen_StoredTimes.cfg" if quick else "Gen_StoredTimes_wide.cfg"
    if replay:
        rp = json.load(open(replay))
        case = rp["case"]
        rtier = rp.get("tier", "quick")
        if case["dir"] == "compile":
            compile_direction(chk, wd, gen_label_seqs(rtier, wd), only=case)
        else:
            decompile_direction(chk, wd, gen_stored("Gen_StoredTimes.cfg" if rtier == "quick" else "Gen_StoredTimes_wide.cfg", wd),
                                only_row=case["row"], quick=False)
        return
    t0 = time.time()
    # both generators are independent TLC jobs: run them side by side
    with ThreadPoolExecutor(max_workers=2) as ex:
        f_labels = ex.submit(gen_label_seqs, tier, wd)
        f_stored = ex.submit(gen_stored, stored_cfg, wd)
        gen_l, gen_s = f_labels.result(), f_stored.result()
    t1 = time.time()
    compile_direction(chk, wd, gen_l)
    t2 = time.time()
    decompile_direction(chk, wd, gen_s, quick=quick)
    chk.set("phase_wall_s", {"tlc_generators": round(t1 - t0, 1), "compile_direction": round(t2 - t1, 1), "decompile_direction": round(time.time() - t2, 1)})
    chk.set("exhaustive", True)
    chk.set("rule", "compile: every token sequence of the machine of Gen_LabelSeqs within the bounds of Gen_LabelSeqs_%s.cfg; "
                    "decompile: every stored time sequence / jump choice of %s" % (tier, stored_cfg))
    chk.assume("times are compared on the in-memory RawInstr.time; narrowing to the file's field width is C03")
    chk.assume("decompiler output containing break/continue/if-else is not read by StoredTimes.tla (counted in trees_unsupported_construct)")
