"""C03 — a successful compile never writes a file that differs from what was asked (Mode G)."""
import json, os, re, struct, subprocess, time
from concurrent.futures import ThreadPoolExecutor
from . import lib, binlayout as bl

LEVEL = "model_checking"
MANIFEST = dict(
    design='DESIGN.md §4 C03',
    technique='TLA+ table of on-disk fields with the CompileField contract (Fields.tla); TLC enumerates the boundary values of every field, each row is requested through a real source file, compiled and decompiled with the real CLI, and the field is read back from the output binary by an independent struct reader (spec -> impl replay)',
    text='Fields.tla lists the on-disk fields that sources can set (instruction time/opcode/size/param_mask/arg0, s/u/b/c arguments, ANM header words and THTX dimensions, STD layer/anm_script/instance words, MSG table length, mission stage/scene, fixed string buffers, 16-bit counts) with width and signedness, and the contract "fits => Ok and reads back as v; does not fit => error diagnostic". TLC explores one behaviour per (field, boundary value) (min-1, min, -1, 0, 1, max, max+1, 2^w, 2^w+max; aligned variants for sizes) checking the in-model facts, and every row is replayed: a source template requests the value, the real CLI compiles it, the field is read back both from the bytes (own reader) and through the real decompiler, and the outcome is compared with the contract. Exhaustive over the enumerated rows.',
    note='Trusted: TLC, CommunityModules Json, the source templates and the layout readers in checks/binlayout.py. Not decided: the reserved opcode 0xFFFF in formats that use it as end marker; values that need more than 2^32 (TLC integers are 32-bit; 32-bit fields hold every source integer); count fields other than the listed ones; the quick tier skips rows that need > 60000 items.',
)

TYPENAME = lambda r: ("cstr%d" % r["w"]) if r["kind"] == "cstr" else ("%s%d" % ("i" if r["signed"] else "u", r["w"]))

# ------------------------------------------------------------------ source templates (text only)
ENTRY = ('entry {\n    path: "e0.png",\n    has_data: %(has_data)s,\n    img_width: %(img_width)s,\n    img_height: %(img_height)s,\n'
         '    img_format: %(img_format)s,\n    offset_x: %(offset_x)s,\n    offset_y: %(offset_y)s,\n    colorkey: 0,\n'
         '    memory_priority: %(memory_priority)s,\n    low_res_scale: false,\n    rt_width: %(rt_width)s,\n    rt_height: %(rt_height)s,\n'
         '    sprites: {%(sprites)s},\n}\n')
ENTRY_DEFAULTS = dict(has_data="false", img_width=16, img_height=16, img_format=3, offset_x=0, offset_y=0, memory_priority=0,
                      rt_width=16, rt_height=16, sprites="s0: {x: 0.0, y: 0.0, w: 1.0, h: 1.0, id: 0}")


def anm(body="", scripts=None, **kw):
    d = dict(ENTRY_DEFAULTS)
    d.update(kw)
    s = ENTRY % d
    if scripts is not None:
        return s + scripts
    return s + "script main {\n%s}\n" % body


def msg(body, table_len=None):
    tl = "" if table_len is None else "    table_len: %d,\n" % table_len
    return 'meta {\n%s    table: {\n        0: {script: "main"},\n    },\n}\nscript main {\n%s}\n' % (tl, body)


def msg09(body):
    return 'meta {\n    table: {\n        0: {script: "main", flags: 256},\n    },\n}\nscript main {\n%s}\n' % body


def std06(body="", layer=4, anm_script=2, inst_unknown=256, unknown=0, stage_name="dm", bgm_path="bgm/a.mid", objects=None):
    if objects is None:
        objects = ('        o: {layer: %d, pos: [0.0, 0.0, 0.0], size: [1.0, 1.0, 1.0], quads: [\n'
                   '            rect {anm_script: %d, pos: [0.0, 0.0, 0.0], size: [1.0, 1.0]},\n        ]},\n' % (layer, anm_script))
        instances = "        o {unknown: %d, pos: [1.0, 2.0, 3.0]},\n" % inst_unknown
    else:
        instances = ""
    return ('meta {\n    unknown: %d,\n    stage_name: "%s",\n    bgm: [\n        {path: "%s", name: "dm"},\n' % (unknown, stage_name, bgm_path)
            + '        {path: " ", name: " "},\n' * 3 + "    ],\n    objects: {\n" + objects + "    },\n    instances: [\n" + instances
            + "    ],\n}\nscript main {\n%s}\n" % body)


def std12(body="", layer=4, anm_path="stage01.anm"):
    return ('meta {\n    unknown: 0,\n    anm_path: "%s",\n    objects: {\n        o: {layer: %d, pos: [0.0, 0.0, 0.0], size: [1.0, 1.0, 1.0], quads: []},\n'
            '    },\n    instances: [],\n}\nscript main {\n%s}\n' % (anm_path, layer, body))


def ecl_sub(body, subs=None):
    if subs is not None:
        return "script timeline0 {}\n" + subs
    return "script timeline0 {}\nvoid sub0() {\n%s}\n" % body


def ecl_tl(body):
    return "script timeline0 {\n%s}\nvoid sub0() {}\n" % body


def mission(stage=1, scene=2, text="a"):
    return 'entry {\n    stage: %d,\n    scene: %d,\n    face: 3,\n    point: 4,\n    text: ["%s", "b", "c"],\n}\n' % (stage, scene, text)


def blob(n):
    return "00" * n


def timed(v, ins):
    return "%d:\n    %s\n" % (v, ins)


# ------------------------------------------------------------------ reading truth's decompiled text (no semantics: text only)
LABEL_ABS = re.compile(r"^\s*(-?\d+):")
LABEL_REL = re.compile(r"^\s*\+(\d+):")
INS = re.compile(r"^\s*ins_(\d+)\((.*)\);\s*$")


def body_of(text, header_re):
    lines = text.splitlines()
    for i, l in enumerate(lines):
        if re.match(header_re, l):
            out = []
            for m in lines[i + 1:]:
                if m.startswith("}"):
                    return out
                out.append(m)
            return out
    return None


def split_args(s):
    out, depth, cur, instr = [], 0, "", False
    for ch in s:
        if ch == '"':
            instr = not instr
        if not instr and ch in "([":
            depth += 1
        if not instr and ch in ")]":
            depth -= 1
        if ch == "," and depth == 0 and not instr:
            out.append(cur.strip())
            cur = ""
        else:
            cur += ch
    if cur.strip():
        out.append(cur.strip())
    return out


def first_instr(text, header_re):
    """-> dict(time, opcode, args [strings]) of the first instruction of the script, or None"""
    body = body_of(text, header_re)
    if body is None:
        return None
    t = 0
    for l in body:
        m = LABEL_REL.match(l)
        if m:
            t += int(m.group(1))
            continue
        m = LABEL_ABS.match(l)
        if m:
            t = int(m.group(1))
            continue
        m = INS.match(l)
        if m:
            return dict(time=t, opcode=int(m.group(1)), args=split_args(m.group(2)))
    return None


def toint(s):
    s = s.strip()
    try:
        return int(s, 0)
    except ValueError:
        return None


def named(args, key, default=None):
    for a in args:
        if a.startswith("@" + key + "="):
            return a[len(key) + 2:]
    return default


SCRIPT = r"^script "
SUB = r"^void "


def d_time(h):
    return lambda t: (first_instr(t, h) or {}).get("time")


def d_opcode(h):
    return lambda t: (first_instr(t, h) or {}).get("opcode")


def d_arg(h, k):
    def f(t):
        i = first_instr(t, h)
        if not i or k >= len(i["args"]):
            return None
        return toint(i["args"][k])
    return f


def d_blobsize(h, base):
    def f(t):
        i = first_instr(t, h)
        if not i:
            return None
        b = named(i["args"], "blob")
        if b is None:
            return None
        return base + len(re.sub(r"[^0-9a-fA-F]", "", b)) // 2
    return f


def d_mask(h):
    def f(t):
        i = first_instr(t, h)
        if not i:
            return None
        m = named(i["args"], "mask", "0")
        return toint(m)
    return f


def d_arg0(h):
    def f(t):
        i = first_instr(t, h)
        if not i:
            return None
        a = named(i["args"], "arg0")
        return toint(a) if a is not None else toint(i["args"][0]) if i["args"] else None
    return f


def d_meta(key, absent=None):
    """first `key: <int>` in the text; `absent` if the decompiler does not print the field"""
    def f(t):
        m = re.search(r"\b%s: (-?\w+)" % re.escape(key), t)
        if not m:
            return absent
        return toint(m.group(1))
    return f


def d_strlen(key, index=0):
    def f(t):
        ms = re.findall(r'\b%s: "((?:[^"\\]|\\.)*)"' % re.escape(key), t)
        return len(ms[index]) if len(ms) > index else None
    return f


def d_count(pattern):
    return lambda t: len(re.findall(pattern, t, re.M))


# ------------------------------------------------------------------ reading the field from the bytes
def b_msg(field, game="06"):
    def f(d):
        m = bl.read_msg(d, game)
        if field == "table_len":
            return m["len"]
        ins = m["scripts"][m["table"][0]["offset"]][0]
        return ins[field]
    return f


def b_msg_arg(fmt, off, game="06"):
    def f(d):
        m = bl.read_msg(d, game)
        ins = m["scripts"][m["table"][0]["offset"]][0]
        return struct.unpack_from("<" + fmt, ins["args"], off)[0]
    return f


def b_anm_ins(game, field):
    return lambda d: bl.read_anm(d, game)[0]["scripts"][0]["instrs"][0][field]


def b_anm_arg(game, fmt, off):
    return lambda d: struct.unpack_from("<" + fmt, bl.read_anm(d, game)[0]["scripts"][0]["instrs"][0]["args"], off)[0]


def b_anm_hdr(game, field, signed32=False):
    def f(d):
        v = bl.read_anm(d, game)[0][field]
        return v - (1 << 32) if signed32 and v >= (1 << 31) else v
    return f


def b_anm_sprite_id(d):
    v = bl.read_anm(d, "12")[0]["sprites"][0]["id"]
    return v - (1 << 32) if v >= (1 << 31) else v


def b_anm_thtx(field):
    return lambda d: bl.read_anm(d, "12")[0]["thtx"][field]


def b_std(game, path):
    def f(d):
        s = bl.read_std(d, game)
        x = s
        for p in path:
            x = x[p]
        return x
    return f


def b_std_unknown(d):
    v = bl.read_std(d, "06")["unknown"]
    return v - (1 << 32) if v >= (1 << 31) else v


def b_std_str(game, index):
    def f(d):
        raw = bl.read_std(d, game)["strings"][index]
        return raw.index(b"\0") if b"\0" in raw else len(raw)
    return f


def b_ecl_sub(game, field):
    return lambda d: bl.read_ecl_old(d, game)["subs"][0]["instrs"][0][field]


def b_ecl_tl(game, field):
    return lambda d: bl.read_ecl_old(d, game)["timelines"][0]["instrs"][0][field]


def b_ecl_tl_arg(game, fmt, off):
    return lambda d: struct.unpack_from("<" + fmt, bl.read_ecl_old(d, game)["timelines"][0]["instrs"][0]["args"], off)[0]


def b_mission(field):
    def f(d):
        n, off0 = struct.unpack_from("<II", d, 0)
        stage, scene = struct.unpack_from("<HH", d, off0)
        return dict(stage=stage, scene=scene)[field]
    return f


def u16_as_s(f):
    return lambda d: (lambda v: v - 65536 if v >= 32768 else v)(f(d))


def u16_of(f):
    return lambda d: f(d) & 0xFFFF


# ------------------------------------------------------------------ bindings: field id -> how to request / read back
class Bind:
    def __init__(self, cmd, game, make, rb, dc, flags=(), mapfile=None):
        self.cmd, self.game, self.make, self.rb, self.dc, self.flags, self.mapfile = cmd, game, make, rb, dc, list(flags), mapfile


USER_MAP = "!anmmap\n!ins_signatures\n900 c---\n901 b---\n902 s--\n903 u--\n904 S\n"
A, M, E, S = "truanm", "trumsg", "truecl", "trustd"
NOSIG = 700       # an opcode without a built-in signature in every instruction set used here


def many(fmt, n, sep=""):
    return sep.join(fmt % i for i in range(n))


BIND = {
    # ---- MSG
    "msg06.instr.time": Bind(M, "06", lambda v: msg(timed(v, "ins_4(7);")), b_msg("time"), d_time(SCRIPT)),
    "msg06.instr.opcode": Bind(M, "06", lambda v: msg(timed(1, 'ins_%d(@blob="00000000");' % v)), b_msg("opcode"), d_opcode(SCRIPT)),
    "msg06.instr.argsize": Bind(M, "06", lambda v: msg(timed(1, 'ins_100(@blob="%s");' % blob(v))), b_msg("size"), d_blobsize(SCRIPT, 0)),
    "msg06.instr.argsize.str": Bind(M, "06", lambda v: msg(timed(1, 'ins_3(0, 0, "%s");' % ("a" * (v - 5)))), b_msg("size"),
                                    lambda t: (lambda i: None if not i or len(i["args"]) < 3 else 4 + (len(i["args"][2]) - 2 + 1 + 3) // 4 * 4)(first_instr(t, SCRIPT))),
    "msg06.arg.s": Bind(M, "06", lambda v: msg(timed(1, "ins_1(%d, 0);" % v)), b_msg_arg("h", 0), d_arg(SCRIPT, 0)),
    "msg06.arg.b": Bind(M, "06", lambda v: msg(timed(1, "ins_5(1, %d);" % v)), b_msg_arg("B", 2), d_arg(SCRIPT, 1)),
    "msg06.table_len": Bind(M, "06", lambda v: msg("    ins_4(7);\n", table_len=v), b_msg("table_len"), d_meta("table_len")),
    "msg09.instr.time": Bind(M, "09", lambda v: msg09(timed(v, "ins_4(7);")), b_msg("time", "09"), d_time(SCRIPT)),
    # ---- ANM v0
    "anm06.instr.time": Bind(A, "06", lambda v: anm(timed(v, "ins_7();")), b_anm_ins("06", "time"), d_time(SCRIPT)),
    "anm06.instr.opcode": Bind(A, "06", lambda v: anm(timed(1, 'ins_%d(@blob="00000000");' % v)), b_anm_ins("06", "opcode"), d_opcode(SCRIPT)),
    "anm06.instr.argsize": Bind(A, "06", lambda v: anm(timed(1, 'ins_100(@blob="%s");' % blob(v))), b_anm_ins("06", "size"), d_blobsize(SCRIPT, 0)),
    "anm06.arg.s": Bind(A, "06", lambda v: anm(timed(1, "ins_26(%d);" % v)), b_anm_arg("06", "h", 0), d_arg(SCRIPT, 0)),
    "anm06.arg.u": Bind(A, "06", lambda v: anm(timed(1, "ins_16(0, %d);" % v)), b_anm_arg("06", "H", 4), d_arg(SCRIPT, 1)),
    "anm06.arg.b": Bind(A, "06", lambda v: anm(timed(1, "ins_3(%d);" % v)), b_anm_arg("06", "B", 0), d_arg(SCRIPT, 0)),
    "anm06.header.rt_width": Bind(A, "06", lambda v: anm("    ins_7();\n", rt_width=v), b_anm_hdr("06", "rt_width", True), d_meta("rt_width")),
    # ---- ANM v7
    "anm12.instr.time": Bind(A, "12", lambda v: anm(timed(v, "ins_1();")), b_anm_ins("12", "time"), d_time(SCRIPT)),
    "anm12.instr.opcode": Bind(A, "12", lambda v: anm('    ins_%d(@blob="00000000");\n' % v), b_anm_ins("12", "opcode"), d_opcode(SCRIPT)),
    "anm12.instr.size": Bind(A, "12", lambda v: anm('    ins_%d(@blob="%s");\n' % (NOSIG, blob(v - 8))), b_anm_ins("12", "size"), d_blobsize(SCRIPT, 8)),
    "anm12.instr.param_mask": Bind(A, "12", lambda v: anm('    ins_%d(@blob="00000000", @mask=%d);\n' % (NOSIG, v)), b_anm_ins("12", "mask"), d_mask(SCRIPT)),
    "anm12.header.offset_x": Bind(A, "12", lambda v: anm("    ins_1();\n", offset_x=v), b_anm_hdr("12", "offset_x"), d_meta("offset_x")),
    "anm12.header.offset_y": Bind(A, "12", lambda v: anm("    ins_1();\n", offset_y=v), b_anm_hdr("12", "offset_y"), d_meta("offset_y")),
    "anm12.header.rt_width": Bind(A, "12", lambda v: anm("    ins_1();\n", rt_width=v), b_anm_hdr("12", "rt_width"), d_meta("rt_width")),
    "anm12.header.rt_height": Bind(A, "12", lambda v: anm("    ins_1();\n", rt_height=v), b_anm_hdr("12", "rt_height"), d_meta("rt_height")),
    "anm12.header.memory_priority": Bind(A, "12", lambda v: anm("    ins_1();\n", memory_priority=v), b_anm_hdr("12", "memory_priority", True), d_meta("memory_priority")),
    "anm12.sprite.id": Bind(A, "12", lambda v: anm("    ins_1();\n", sprites="s0: {x: 0.0, y: 0.0, w: 1.0, h: 1.0, id: %d}" % v), b_anm_sprite_id, d_meta("id")),
    "anm12.thtx.width": Bind(A, "12", lambda v: anm("    ins_1();\n", has_data='"dummy"', img_width=v, img_height=1, img_format=1, rt_width=1, rt_height=1),
                             b_anm_thtx("width"), d_meta("img_width")),
    "anm12.thtx.height": Bind(A, "12", lambda v: anm("    ins_1();\n", has_data='"dummy"', img_width=1, img_height=v, img_format=1, rt_width=1, rt_height=1),
                              b_anm_thtx("height"), d_meta("img_height")),
    "anm12.arg.c": Bind(A, "12", lambda v: anm("    ins_900(%d);\n" % v), b_anm_arg("12", "b", 0), d_arg(SCRIPT, 0), mapfile=USER_MAP),
    "anm12.arg.b": Bind(A, "12", lambda v: anm("    ins_901(%d);\n" % v), b_anm_arg("12", "B", 0), d_arg(SCRIPT, 0), mapfile=USER_MAP),
    "anm12.arg.s": Bind(A, "12", lambda v: anm("    ins_902(%d);\n" % v), b_anm_arg("12", "h", 0), d_arg(SCRIPT, 0), mapfile=USER_MAP),
    "anm12.arg.u": Bind(A, "12", lambda v: anm("    ins_903(%d);\n" % v), b_anm_arg("12", "H", 0), d_arg(SCRIPT, 0), mapfile=USER_MAP),
    "anm12.arg.S": Bind(A, "12", lambda v: anm("    ins_904(%d);\n" % v), b_anm_arg("12", "i", 0), d_arg(SCRIPT, 0), mapfile=USER_MAP),
    "anm12.header.num_sprites": Bind(A, "12", lambda v: anm("    ins_1();\n", sprites=many("q%d: {x: 0.0, y: 0.0, w: 1.0, h: 1.0}, ", v)),
                                     b_anm_hdr("12", "num_sprites"), d_count(r"\bw: 1\.0\b")),
    "anm12.header.num_scripts": Bind(A, "12", lambda v: anm(scripts=many("script q%d {}\n", v)), b_anm_hdr("12", "num_scripts"), d_count(r"^script ")),
    # ---- STD
    "std06.object.layer": Bind(S, "06", lambda v: std06(layer=v), b_std("06", ["objects", 0, "layer"]), d_meta("layer")),
    "std06.quad.anm_script": Bind(S, "06", lambda v: std06(anm_script=v), b_std("06", ["objects", 0, "quads", 0, "anm_script"]), d_meta("anm_script")),
    "std06.instance.unknown": Bind(S, "06", lambda v: std06(inst_unknown=v), b_std("06", ["instances", 0, "unknown"]),
                                   lambda t: (lambda m: toint(m.group(1)) if m else None)(re.search(r"instances: \[\s*\w+ \{unknown: (-?\w+)", t))),
    "std06.meta.unknown": Bind(S, "06", lambda v: std06(unknown=v), b_std_unknown,
                               lambda t: (lambda m: toint(m.group(1)) if m else None)(re.search(r"meta \{\s*unknown: (-?\w+)", t))),
    "std06.instr.time": Bind(S, "06", lambda v: std06(timed(v, "ins_5();")), b_std("06", ["instrs", 0, "time"]), d_time(SCRIPT)),
    "std06.instr.opcode": Bind(S, "06", lambda v: std06('    ins_%d(@blob="%s");\n' % (v, blob(12))), b_std("06", ["instrs", 0, "opcode"]), d_opcode(SCRIPT)),
    "std06.stage_name": Bind(S, "06", lambda v: std06(stage_name="a" * v), b_std_str("06", 0), d_strlen("stage_name")),
    "std06.bgm.path": Bind(S, "06", lambda v: std06(bgm_path="a" * v), b_std_str("06", 5), d_strlen("path")),
    "std12.object.layer": Bind(S, "12", lambda v: std12(layer=v), b_std("12", ["objects", 0, "layer"]), d_meta("layer")),
    "std12.instr.size": Bind(S, "12", lambda v: std12('    ins_%d(@blob="%s");\n' % (NOSIG, blob(v - 8))), b_std("12", ["instrs", 0, "size"]), d_blobsize(SCRIPT, 8)),
    "std12.anm_path": Bind(S, "12", lambda v: std12(anm_path="a" * v), b_std_str("12", 0), d_strlen("anm_path")),
    "std06.header.num_objects": Bind(S, "06", lambda v: std06(objects=many("        q%d: {layer: 1, pos: [0.0, 0.0, 0.0], size: [1.0, 1.0, 1.0], quads: []},\n", v)),
                                     b_std("06", ["num_objects"]), d_count(r"\blayer: ")),
    "std06.header.num_quads": Bind(S, "06", lambda v: std06(objects="        o: {layer: 1, pos: [0.0, 0.0, 0.0], size: [1.0, 1.0, 1.0], quads: [\n"
                                                             + "            rect {anm_script: 1, pos: [0.0, 0.0, 0.0], size: [1.0, 1.0]},\n" * v + "        ]},\n"),
                                   b_std("06", ["num_quads"]), d_count(r"\banm_script: ")),
    # ---- old ECL
    "ecl06.instr.time": Bind(E, "06", lambda v: ecl_sub(timed(v, "ins_0();")), b_ecl_sub("06", "time"), d_time(SUB)),
    "ecl06.instr.opcode": Bind(E, "06", lambda v: ecl_sub('    ins_%d(@blob="00000000");\n' % v), b_ecl_sub("06", "opcode"), d_opcode(SUB)),
    "ecl06.instr.size": Bind(E, "06", lambda v: ecl_sub('    ins_%d(@blob="%s");\n' % (NOSIG, blob(v - 12))), u16_as_s(b_ecl_sub("06", "size")), d_blobsize(SUB, 12)),
    "ecl07.instr.param_mask": Bind(E, "07", lambda v: ecl_sub('    ins_%d(@blob="00000000", @mask=%d);\n' % (NOSIG, v)), b_ecl_sub("07", "mask"), d_mask(SUB)),
    "ecl06.header.num_subs": Bind(E, "06", lambda v: ecl_sub(None, subs=many("void q%d() {}\n", v)), lambda d: bl.read_ecl_old(d, "06")["num_subs"], d_count(r"^void ")),
    # ---- timelines
    "timeline06.instr.time": Bind(E, "06", lambda v: ecl_tl(timed(v, "ins_9();")), b_ecl_tl("06", "time"), d_time(SCRIPT)),
    "timeline06.arg0.s": Bind(E, "06", lambda v: ecl_tl("    ins_12(%d);\n" % v), b_ecl_tl("06", "arg0"), d_arg0(SCRIPT)),
    "timeline06.arg0.u": Bind(E, "06", lambda v: ecl_tl("    ins_11(%d);\n" % v), u16_of(b_ecl_tl("06", "arg0")), d_arg0(SCRIPT)),
    # (opcodes 0 and 1 have built-in timeline signatures of 20 and 12 argument bytes: give them a blob of that size)
    "timeline06.instr.opcode": Bind(E, "06", lambda v: ecl_tl('    ins_%d(@blob="%s");\n' % (v, blob({0: 20, 1: 12}.get(v, 4)))), b_ecl_tl("06", "opcode"), d_opcode(SCRIPT)),
    "timeline06.instr.size": Bind(E, "06", lambda v: ecl_tl('    ins_%d(@blob="%s");\n' % (NOSIG, blob(v - 8))), b_ecl_tl("06", "size"), d_blobsize(SCRIPT, 8)),
    "timeline08.instr.time": Bind(E, "08", lambda v: ecl_tl(timed(v, "ins_7();")), b_ecl_tl("08", "time"), d_time(SCRIPT)),
    "timeline08.instr.size": Bind(E, "08", lambda v: ecl_tl('    ins_%d(@blob="%s");\n' % (NOSIG, blob(v - 8))), b_ecl_tl("08", "size"), d_blobsize(SCRIPT, 8)),
    "timeline08.arg.s": Bind(E, "08", lambda v: ecl_tl("    ins_8(5, %d);\n" % v), b_ecl_tl_arg("08", "h", 4), d_arg(SCRIPT, 1)),
    # ---- mission.msg
    "mission095.entry.stage": Bind(M, "095", lambda v: mission(stage=v), b_mission("stage"), d_meta("stage"), flags=["--mission"]),
    "mission095.entry.scene": Bind(M, "095", lambda v: mission(scene=v), b_mission("scene"), d_meta("scene"), flags=["--mission"]),
    "mission095.entry.text": Bind(M, "095", lambda v: mission(text="a" * v), None,
                                  lambda t: (lambda m: len(m.group(1)) if m else None)(re.search(r'text: \["([^"]*)"', t)), flags=["--mission"]),
}


# ------------------------------------------------------------------ driving the real CLI
def run_row(job):
    """compile with the real CLI; on success read the field back from the bytes and through the real decompiler"""
    row, b, wd, env = job["row"], job["bind"], job["dir"], job["env"]
    base = os.path.join(wd, "r%d" % job["idx"])
    spec, out, dec = base + ".spec", base + ".bin", base + ".dec"
    src = b.make(row["v"])
    with open(spec, "w") as f:
        f.write(src)
    extra = list(b.flags)
    if b.mapfile:
        extra += ["-m", os.path.join(wd, "user.anmm")]
    try:
        p = subprocess.run([lib.TRUTH_CORE, b.cmd, "compile", spec, "-g", b.game, "-o", out] + extra,
                           stdout=subprocess.PIPE, stderr=subprocess.PIPE, env=env, timeout=300)
    except subprocess.TimeoutExpired:
        return dict(rc=-9, stderr="(no answer within 300 s)", src=src[:3000])
    res = dict(rc=p.returncode, stderr=p.stderr.decode("utf-8", "replace"), src=src if len(src) < 3000 else src[:1500] + "\n...[%d bytes]...\n" % len(src) + src[-600:])
    if p.returncode == 0 and os.path.exists(out):
        data = open(out, "rb").read()
        res["size"] = len(data)
        if b.rb is not None:
            try:
                res["bin"] = b.rb(data)
            except (bl.Layout, struct.error, IndexError, KeyError, ValueError) as e:
                res["bin_error"] = "%s: %s" % (type(e).__name__, e)
        q = subprocess.run([lib.TRUTH_CORE, b.cmd, "decompile", out, "-g", b.game] + extra,
                           stdout=subprocess.PIPE, stderr=subprocess.PIPE, env=env, timeout=600)
        res["drc"] = q.returncode
        res["dstderr"] = q.stderr.decode("utf-8", "replace")[:1500]
        if q.returncode == 0:
            text = q.stdout.decode("utf-8", "replace")
            res["dec"] = b.dc(text)
            res["dec_head"] = text[:600]
    for pth in (spec, out):
        if os.path.exists(pth) and not job.get("keep"):
            os.unlink(pth)
    return res


def first_line(s, pat=("error", "panicked")):
    for l in s.splitlines():
        if any(x in l for x in pat):
            return l[:160]
    return (s.strip().splitlines() or [""])[0][:160]


def short_src(b, v):
    """the line of the template that carries the value (for one-line reports)"""
    a, c = b.make(0 if v != 0 else 1).splitlines(), b.make(v).splitlines()
    for x, y in zip(a, c):
        if x != y:
            return y.strip()[:100]
    return c[-1][:100]


def run(chk, replay=None):
    wd = lib.workdir("c03")
    rows_path = os.path.join(wd, "rows.ndjson")
    t0 = time.time()
    r = lib.tlc("Gen_Fields", env={"OUT": rows_path}, workers=2, timeout=600)
    if not r.ok:
        raise lib.ToolError("Gen_Fields: an in-model fact of the field contract fails\n" + r.out[-3000:])
    chk.tlc_stats(r)
    chk.set("seconds_tlc", round(time.time() - t0, 1))
    rows = lib.read_ndjson(rows_path)
    rows.sort(key=lambda x: (x["id"], x["v"]))
    ids = {x["id"] for x in rows}
    if ids != set(BIND):
        raise lib.ToolError("fields without a binding / bindings without a field: %s" % sorted(ids ^ set(BIND)))
    with open(os.path.join(wd, "user.anmm"), "w") as f:
        f.write(USER_MAP)
    if replay:
        rc = json.load(open(replay))["case"]
        rows = [x for x in rows if x["id"] == rc["row"]["id"] and x["v"] == rc["row"]["v"]]
        if not rows:
            raise lib.ToolError("the replayed row is not generated any more")
    env = lib.clean_env()
    jobs = []
    for row in rows:
        if row["heavy"] and chk.tier == "quick" and not replay:
            chk.add("rows_skipped_heavy")
            continue
        jobs.append(dict(idx=len(jobs), row=row, bind=BIND[row["id"]], dir=wd, env=env))
    t0 = time.time()
    with ThreadPoolExecutor(max_workers=8) as ex:
        results = list(ex.map(run_row, jobs))
    chk.set("seconds_replay", round(time.time() - t0, 1))
    n_fit = n_nofit = n_dec = n_bin = 0
    for job, res in zip(jobs, results):
        row, b = job["row"], job["bind"]
        v, fid = row["v"], row["id"]
        ty = TYPENAME(row)
        key = "field:%s:%s" % (fid, ty)
        chk.add("traces_validated_against_impl")
        rep = dict(row=row, observed=res)
        if row["kind"] == "size":
            line = "%s with %d argument bytes" % ("ins_3(0, 0, <string>)" if fid.endswith(".str") else "ins_N(@blob=...)", v if fid.endswith(".str") else v - row["base"])
        elif row["kind"] == "count":
            line = "%d items" % v
        elif row["kind"] == "cstr":
            line = "a string of %d bytes" % v
        else:
            line = short_src(b, v)
        where = "th%s %s `%s`" % (b.game, b.cmd, line)
        if res["rc"] not in (0, 1) or "panicked at" in res["stderr"]:
            chk.report(key + ":panic", "%s: compile crashes (exit %d): %s" % (where, res["rc"], first_line(res["stderr"])), rep)
            continue
        if row["exp"]["ok"]:
            n_fit += 1
            if res["rc"] != 0:
                chk.report(key + ":rejected", "%s: %d fits %s but compile fails: %s" % (where, v, ty, first_line(res["stderr"])), rep)
                continue
            if "bin_error" in res:
                chk.report(key + ":readback", "%s: the written file cannot be laid out: %s" % (where, res["bin_error"]), rep)
                continue
            if "bin" in res:
                n_bin += 1
                if res["bin"] != v:
                    chk.report(key + ":readback", "%s: compiles, but the field in the file holds %s" % (where, res["bin"]), rep)
                    continue
            if res.get("drc") != 0:
                chk.report(key + ":readback", "%s: compiles, but truth cannot read the file back: %s" % (where, first_line(res.get("dstderr", ""))), rep)
                continue
            if res.get("dec") is not None:
                n_dec += 1
                if res["dec"] != v:
                    chk.report(key + ":readback", "%s: compiles, file holds %s, but truth reads it back as %s" % (where, res.get("bin"), res["dec"]), rep)
                    continue
            else:
                chk.add("decompiler_does_not_show_field")
        else:
            n_nofit += 1
            if res["rc"] == 0:
                stored = res.get("bin", res.get("dec"))
                if stored == row["wrap"] and row["kind"] != "cstr":
                    how = "the file holds %s = the value an unchecked narrowing cast produces; truth reads it back as %s" % (stored, res.get("dec"))
                elif "bin_error" in res:
                    how = "the written file no longer has a readable layout (%s)" % res["bin_error"][:80]
                else:
                    how = "the file holds %s, truth reads it back as %s" % (res.get("bin"), res.get("dec"))
                chk.report(key, "%s: %d does not fit %s, yet compile exits 0 without a diagnostic; %s" % (where, v, ty, how), rep)
                continue
            if "error" not in res["stderr"]:
                chk.report(key + ":no-diagnostic", "%s: compile fails without an error diagnostic" % where, rep)
                continue
        if job["idx"] % max(1, len(jobs) // 5) == 2:
            chk.sample(dict(field=fid, type=ty, v=v, expected=row["exp"], source_line=line, rc=res["rc"], file_holds=res.get("bin"),
                            truth_reads_back=res.get("dec"), diagnostic=first_line(res["stderr"]) if res["rc"] else ""))
    chk.set("fields", len({j["row"]["id"] for j in jobs}))
    chk.set("rows_fitting", n_fit)
    chk.set("rows_not_fitting", n_nofit)
    chk.set("read_back_from_bytes", n_bin)
    chk.set("read_back_through_decompiler", n_dec)
    chk.set("exhaustive", True)
    chk.set("rule", "every (field, boundary value) row of Gen_Fields is requested through a source template, compiled with the real CLI, "
                    "read back from the bytes and through `decompile`; quick skips rows that need > 60000 items")
    chk.assume("the opcode 0xFFFF (end-of-script marker in ANM v2+, old ECL, STD) is reserved and not decided")
    chk.assume("32-bit fields hold every source integer bit for bit; values beyond 32 bits cannot be written in a source")
    chk.assume("the templates request the value through the documented syntax (time labels, ins_N, @blob/@mask/@arg0, meta fields)")
