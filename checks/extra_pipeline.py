"""Pipeline machine (spec/Pipeline.tla): the pass sequences recorded from the real compile functions of every
format are behaviours of the documented requires/provides machine.  Called from c20.py (growth beyond the listed
properties: it decides no listed property by itself, it guards the contract that made mission.msg panic)."""
import json, os, random, re
from . import lib, c01

MODERN_ECL = [
    ("10", "void main() {\n    ins_10();\n}\n"),
    ("128", "void sub0() {\n    ins_10();\n}\nvoid main() {\n    int x = 3;\n    ins_10();\n}\n"),
]
MISSION_BAD = 'entry { stage : REG[1] , scene : 1 , face : 0 , point : 0 , text : [ "a" , "b" , "c" ] }\n'


def tool_of(lang):
    if lang.key.startswith("mission"):
        return "mission"
    return {"truanm": "anm", "truecl": "ecl", "trustd": "std", "trumsg": "msg"}[lang.fmt]


def mutate(text, how):
    """ill-formed variants: the pipeline must stop at (or before) the pass that finds the error"""
    i = text.find(";")
    if i < 0:
        return None
    if how == "type":
        return text[:i + 1] + " int zzq1 = 1.5;" + text[i + 1:]
    if how == "name":
        return text[:i + 1] + " zzq2 = zzq3;" + text[i + 1:]
    if how == "difficulty":
        return text[:i + 1] + ' {"Q"}: nosuchins();' + text[i + 1:]
    return None


def run(chk, per_lang=None):
    quick = chk.tier == "quick"
    per_lang = per_lang or (6 if quick else 40)
    rng = random.Random(chk.seed * 7919 + 13)
    r0 = lib.tlc("Pipeline", cfg="Pipeline.cfg", workers=2, timeout=600, name="pipeline_mc")
    if not r0.ok:
        raise lib.ToolError("Pipeline.tla: an invariant of the pass machine fails in the model itself\n" + r0.out[-2000:])
    chk.tlc_stats(r0)
    sources, langs = [], []
    for key, lang in c01.LANGS.items():
        if key == "end10":
            continue
        flavours = ["blocks", "mixed", "graph", "raw"] if lang.fmt != "trumsg" else ["blocks"]
        for i in range(per_lang):
            sources.append(c01.gen_source(rng, key, flavours[i % len(flavours)]))
            langs.append(lang)
    texts = c01.render_sources(sources, "pipeline")
    wd = lib.workdir("c20_pipeline")
    jobs = []

    def add(tool, game, text, kind):
        idx = len(jobs)
        path = os.path.join(wd, "src_%05d.spec" % idx)
        with open(path, "w") as f:
            f.write(text)
        jobs.append({"idx": idx, "tool": tool, "game": game, "spec": path, "kind": kind})

    for lang, text in zip(langs, texts):
        add(tool_of(lang), lang.game, text, "generated:" + lang.key)
        for how in ("type", "name", "difficulty"):
            if rng.random() < 0.5:
                m = mutate(text, how)
                if m:
                    add(tool_of(lang), lang.game, m, "ill-formed:%s:%s" % (how, lang.key))
    for game, text in MODERN_ECL:
        add("ecl", game, text, "fixed:modern-ecl")
    add("mission", "095", MISSION_BAD, "fixed:mission-reg")
    jpath = os.path.join(wd, "jobs.ndjson")
    lib.write_ndjson(jpath, jobs)
    p = lib.vh(["pipeline", jpath], timeout=1800)
    rows = [json.loads(l) for l in p.stdout.splitlines()]
    if len(rows) != len(jobs):
        raise lib.ToolError("pipeline harness answered %d of %d jobs" % (len(rows), len(jobs)))
    obs = []
    for job, row in zip(jobs, rows):
        chk.add("pipeline_compilations")
        chk.add("pipeline_rc_%s" % row["rc"])
        if row["rc"] == 101:
            chk.report("pipeline:panic:%s:%s" % (job["tool"], lib.norm_loc(row["stderr"])[:80]),
                       "compiling panics (%s): %s" % (job["kind"], row["stderr"]), {"job": job, "row": row, "text": open(job["spec"]).read()})
            continue
        obs.append({"tool": row["tool"], "rc": row["rc"], "passes": row["passes"]})
        job["row"] = row
    good = [j for j in jobs if "row" in j]
    opath = os.path.join(wd, "obs.ndjson")
    lib.write_ndjson(opath, obs)
    res = lib.tlc("Trace_Pipeline", cfg="Trace_Pipeline.cfg", env={"OBS": opath}, workers=1, timeout=1200, name="trace_pipeline", extra=("-continue",))
    chk.tlc_stats(res)
    m = re.search(r'<<"COUNTS", (\d+), (\d+)>>', res.out)
    bad = re.findall(r'<<"BAD", (\d+), "([^"]*)", (\d+)>>', res.out)
    if not m:
        raise lib.ToolError("Trace_Pipeline printed no counts\n" + res.out[-2000:])
    if int(m.group(1)) + len(bad) != len(obs):
        raise lib.ToolError("Trace_Pipeline judged %s + %d of %d rows" % (m.group(1), len(bad), len(obs)))
    chk.add("pipeline_traces_accepted", int(m.group(1)))
    seen = set()
    for idx, why, at in bad:
        job = good[int(idx) - 1]
        row = job["row"]
        culprit = row["passes"][int(at) - 1] if int(at) else "-"
        key = "pipeline:%s:%s:%s" % (why, job["tool"], culprit)
        if key in seen:
            continue
        seen.add(key)
        chk.report(key, "%s compile (%s, game %s): recorded passes %s are not a behaviour of Pipeline.tla (%s at %s)"
                   % (job["tool"], job["kind"], job["game"], row["passes"], why, culprit),
                   {"job": job, "row": row, "text": open(job["spec"]).read()})
    tools = sorted({o["tool"] for o in obs})
    chk.set("pipeline_tools", tools)
    chk.set("pipeline_distinct_sequences", len({(o["tool"], tuple(o["passes"])) for o in obs}))
