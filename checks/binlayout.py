"""Minimal, independent layout readers for truth's output binaries (C20, C03).

These know *where fields are* (field order and widths, read off the read_*/write_* functions of
/repo/src/formats/*.rs and the public format documentation) and nothing else: no numbering rule,
no signature table, no range rule.  They never call truth.  Every reader returns plain dicts/lists
of the integers found in the file."""
import struct


class Layout(Exception):
    """The file does not have the expected layout (truncated, bad offsets...)."""


def _u(fmt, data, off):
    try:
        return struct.unpack_from("<" + fmt, data, off)
    except struct.error as e:
        raise Layout("short read at %#x (%s)" % (off, e))


# ------------------------------------------------------------------ instruction streams
# Each reader returns (instr dict, next offset) or (None, next offset) at the terminal instruction.

def _ins_anm_v0(d, o):      # also MSG (all games): time i16, opcode u8 (read as i8 by truth), argsize u8
    if o + 4 > len(d):
        return None, o
    time, opcode, argsize = _u("hBB", d, o)
    if (time, opcode, argsize) == (0, 0, 0):
        return None, o + 4
    return dict(time=time, opcode=opcode, size=argsize, args=d[o + 4:o + 4 + argsize], off=o), o + 4 + argsize


def _ins_anm_v2(d, o):      # opcode i16/u16, size u16 (whole instruction), time i16, mask u16
    opcode, size, time, mask = _u("HHhH", d, o)
    if opcode == 0xFFFF:
        return None, o + 8
    if size < 8:
        raise Layout("instruction size %d < 8 at %#x" % (size, o))
    return dict(time=time, opcode=opcode, size=size, mask=mask, args=d[o + 8:o + size], off=o), o + size


def _ins_ecl_old(d, o):     # time i32, opcode u16, size i16, u8 0, difficulty u8, mask u16
    time, opcode, size, zero, diff, mask = _u("iHhBBH", d, o)
    if opcode == 0xFFFF:
        return None, o + 12
    if size < 12:
        raise Layout("instruction size %d < 12 at %#x" % (size, o))
    return dict(time=time, opcode=opcode, size=size, difficulty=diff, mask=mask, args=d[o + 12:o + size], off=o), o + size


def _ins_timeline_06(d, o):  # time i16, arg0 i16, opcode u16, size u16   (terminal: time -1, arg0 4; 4 bytes)
    time, arg0 = _u("hh", d, o)
    if (time, arg0) == (-1, 4):
        return None, o + 4
    opcode, size = _u("HH", d, o + 4)
    if size < 8:
        raise Layout("instruction size %d < 8 at %#x" % (size, o))
    return dict(time=time, arg0=arg0, opcode=opcode, size=size, args=d[o + 8:o + size], off=o), o + size


def _ins_timeline_08(d, o):  # time i32, opcode u16, size u8, difficulty u8
    time, opcode, size, diff = _u("iHBB", d, o)
    if (time, opcode, size, diff) == (-1, 0, 0, 0):
        return None, o + 8
    if size < 8:
        raise Layout("instruction size %d < 8 at %#x" % (size, o))
    return dict(time=time, opcode=opcode, size=size, difficulty=diff, args=d[o + 8:o + size], off=o), o + size


def _ins_std_06(d, o):      # time i32, opcode i16/u16, argsize u16 (always 12)
    time, opcode, argsize = _u("iHH", d, o)
    if opcode == 0xFFFF:
        return None, o + 20
    return dict(time=time, opcode=opcode, size=argsize, args=d[o + 8:o + 8 + 12], off=o), o + 20


def _ins_std_10(d, o):      # time i32, opcode u16, size u16 (whole instruction)
    time, opcode, size = _u("iHH", d, o)
    if opcode == 0xFFFF:
        return None, o + 20
    if size < 8:
        raise Layout("instruction size %d < 8 at %#x" % (size, o))
    return dict(time=time, opcode=opcode, size=size, args=d[o + 8:o + size], off=o), o + size


INSTR_READERS = {
    "anm_v0": _ins_anm_v0, "msg": _ins_anm_v0, "anm_v2": _ins_anm_v2, "ecl_old": _ins_ecl_old,
    "timeline_06": _ins_timeline_06, "timeline_08": _ins_timeline_08, "std_06": _ins_std_06, "std_10": _ins_std_10,
}


def read_instrs(kind, data, off, end=None, limit=100000):
    rd = INSTR_READERS[kind]
    out = []
    while len(out) < limit:
        if end is not None and off >= end:
            break
        ins, off = rd(data, off)
        if ins is None:
            break
        out.append(ins)
    return out


def dwords(args):
    n = len(args) // 4
    return list(struct.unpack_from("<%di" % n, args, 0)) if n else []


# ------------------------------------------------------------------ ANM
def anm_version_of_game(game):
    g = str(game)
    return {"06": 0, "07": 2, "08": 3, "09": 3, "095": 4, "10": 4, "11": 7, "12": 7, "125": 7, "128": 7}.get(g, 8)


def read_anm(data, game):
    """-> list of entries: {header fields, sprites: [{id,x,y,w,h}], scripts: [{id, offset, instrs}]}"""
    old = anm_version_of_game(game) < 7
    ikind = "anm_v0" if anm_version_of_game(game) == 0 else "anm_v2"
    entries = []
    pos = 0
    while True:
        if old:
            (nspr, nscr, _z, w, h, fmt, colorkey, name_off, _u1, name2_off, version, mempri, thtx_off,
             has_data, _u2, next_off, _u3) = _u("IIIIIIIIIIIIIHHII", data, pos)
            hdr = dict(num_sprites=nspr, num_scripts=nscr, rt_width=w, rt_height=h, rt_format=fmt, colorkey=colorkey,
                       name_offset=name_off, version=version, memory_priority=mempri, thtx_offset=thtx_off,
                       has_data=has_data, next_offset=next_off, offset_x=0, offset_y=0, low_res_scale=0)
        else:
            (version, nspr, nscr, _z, w, h, fmt, name_off, ox, oy, mempri, thtx_off, has_data, lowres,
             next_off) = _u("IHHHHHHIHHIIHHI", data, pos)
            hdr = dict(num_sprites=nspr, num_scripts=nscr, rt_width=w, rt_height=h, rt_format=fmt, colorkey=0,
                       name_offset=name_off, version=version, memory_priority=mempri, thtx_offset=thtx_off,
                       has_data=has_data, next_offset=next_off, offset_x=ox, offset_y=oy, low_res_scale=lowres)
        p = pos + 64
        spr_offs = _u("%dI" % nspr, data, p) if nspr else ()
        p += 4 * nspr
        scr = _u("%di" % (2 * nscr), data, p) if nscr else ()
        sprites = []
        for so in spr_offs:
            sid, x, y, w_, h_ = _u("Iffff", data, pos + so)
            sprites.append(dict(id=sid, x=x, y=y, w=w_, h=h_))
        scripts = []
        for k in range(nscr):
            sid, soff = scr[2 * k], scr[2 * k + 1]
            scripts.append(dict(id=sid, offset=soff, instrs=read_instrs(ikind, data, pos + soff)))
        name_end = data.find(b"\0", pos + name_off)
        hdr.update(pos=pos, sprites=sprites, scripts=scripts, path=data[pos + name_off:name_end].decode("latin-1"))
        if thtx_off:
            magic = data[pos + thtx_off:pos + thtx_off + 4]
            zero, tfmt, tw, th, tsize = _u("HHHHI", data, pos + thtx_off + 4)
            hdr["thtx"] = dict(magic=magic, format=tfmt, width=tw, height=th, size=tsize)
        entries.append(hdr)
        if next_off == 0:
            break
        pos += next_off
        if len(entries) > 10000:
            raise Layout("entry chain does not end")
    return entries


# ------------------------------------------------------------------ MSG
def msg_has_flags(game):
    return str(game) not in ("06", "07", "08")


def read_msg(data, game):
    """-> {len, table: [{offset, flags}], scripts: {offset: instrs}}"""
    (n,) = _u("I", data, 0)
    table = []
    p = 4
    for _ in range(n):
        if msg_has_flags(game):
            off, flags = _u("II", data, p)
            p += 8
        else:
            (off,) = _u("I", data, p)
            flags = 0
            p += 4
        table.append(dict(offset=off, flags=flags))
    offs = sorted({e["offset"] for e in table if e["offset"]})
    scripts = {}
    for i, o in enumerate(offs):
        end = offs[i + 1] if i + 1 < len(offs) else None
        scripts[o] = read_instrs("msg", data, o, end)
    return dict(len=n, table=table, scripts=scripts, table_end=p)


# ------------------------------------------------------------------ old ECL (06-095)
def read_ecl_old(data, game):
    g = str(game)
    p = 0
    magic = None
    if g in ("08", "09", "095"):
        (magic,) = _u("I", data, 0)
        p = 4
    nsubs, ntl_field = _u("HH", data, p)
    p += 4
    if g == "06":
        cap = 3
    elif g == "09":
        cap = ntl_field
    else:
        cap = 16
    tl_offs = list(_u("%dI" % cap, data, p)) if cap else []
    p += 4 * cap
    sub_offs = list(_u("%dI" % nsubs, data, p)) if nsubs else []
    tkind = "timeline_06" if g in ("06", "07") else "timeline_08"
    nz = 0
    while nz < len(tl_offs) and tl_offs[nz] != 0:
        nz += 1
    ntl = nz - 1 if g in ("07", "08", "095") else nz
    subs = [dict(offset=o, instrs=read_instrs("ecl_old", data, o)) for o in sub_offs]
    timelines = [dict(offset=o, instrs=read_instrs(tkind, data, o)) for o in tl_offs[:max(ntl, 0)]]
    return dict(magic=magic, num_subs=nsubs, timeline_field=ntl_field, timeline_offsets=tl_offs, subs=subs,
                timelines=timelines)


# ------------------------------------------------------------------ STD
def read_std(data, game):
    g = str(game)
    nobj, nquads, inst_off, script_off, unknown = _u("HHIII", data, 0)
    p = 16
    old = g in ("06", "07", "08", "09")
    strings = []
    for _ in range(9 if old else 1):
        raw = data[p:p + 128]
        strings.append(raw)
        p += 128
    obj_offs = _u("%dI" % nobj, data, p) if nobj else ()
    objects = []
    for oo in obj_offs:
        oid, layer = _u("HH", data, oo)
        pos_size = _u("6f", data, oo + 4)
        q = oo + 28
        quads = []
        while True:
            kind, size = _u("hH", data, q)
            if kind == -1:
                break
            anm_script, zero = _u("HH", data, q + 4)
            quads.append(dict(kind=kind, size=size, anm_script=anm_script))
            q += size
            if size == 0 or len(quads) > 100000:
                raise Layout("bad quad list")
        objects.append(dict(id=oid, layer=layer, pos_size=pos_size, quads=quads))
    insts = []
    q = inst_off
    while True:
        oid, unk = _u("HH", data, q)
        if oid == 0xFFFF:
            break
        insts.append(dict(object=oid, unknown=unk))
        q += 16
        if len(insts) > 100000:
            raise Layout("instance list does not end")
    instrs = read_instrs("std_06" if old else "std_10", data, script_off)
    return dict(num_objects=nobj, num_quads=nquads, unknown=unknown, strings=strings, objects=objects,
                instances=insts, instrs=instrs, script_offset=script_off)
