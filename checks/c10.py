"""C10 — names resolve by lexical scope, independent of how they are spelled (Mode G + in-model)."""
import json, os, re, time
from concurrent.futures import ThreadPoolExecutor
from . import lib

LEVEL = "model_checking"
MANIFEST = dict(
    design='DESIGN.md §4 C10',
    technique='TLA+ specification of the scoping rules in two formulations (declarative occurrence table; rib-stack state machine) '
              'model-checked against each other by TLC on every enumerated scope tree, every tree replayed into the real '
              'parse -> assign_languages -> resolve_names and the real lowering (spec -> impl replay)',
    text='Scopes.tla states the documented scoping rules twice: declaratively (innermost enclosing scope with a visible declaration; '
         'locals from the end of their declarator to the end of the block and never across a function/const boundary, consts and '
         'functions in their whole block, parameters in the body, mapfile aliases only in their language, redeclaration = error) and '
         'as the rib-stack state machine (EnterRib/Declare/LeaveRib/Resolve). TLC runs the machine on every scope tree of four '
         'exhaustively enumerated vocabularies (Gen_ScopeTrees) and checks in every final state that its resolution map equals the '
         'declarative one. Every tree is rendered and resolved by the real front end; the partition of identifier occurrences by '
         'DefId (Resolutions::try_get_def) and the multiset of diagnostics must equal the specification\'s. For every error-free '
         'tree two injective renamings of the bound names computed from the specification\'s resolution are compiled through the '
         'real front half, desugar_blocks and the Lowerer and must give identical RawInstr lists.',
    note='Trusted: TLC, CommunityModules Json, the structural AST exporter and JSON->text renderer, the syntactic expansion of abstract '
         'trees to the interchange form in checks/c10.py. Bounded: tree sizes per vocabulary (see coverage.families). Not decided: which '
         'of a local and a const of one block wins (excluded, DESIGN C10); builtin consts; function items in the renaming half '
         '(truth cannot compile user functions).',
)

# sizes (number of nodes) per vocabulary and tier
SIZES = {
    "quick": {"V": 3, "N": 4, "D": 5, "F": 3, "P": 4},
    "thorough": {"V": 4, "N": 5, "D": 6, "F": 4, "P": 5},
}

COND = {"k": "bin", "op": "==", "a": {"k": "var", "sig": "", "id": "r1000"}, "b": {"k": "int", "v": 0}}


def key(path):
    return "<<" + ", ".join(str(x) for x in path) + ">>"


# ---- purely syntactic expansion of the abstract trees of Gen_ScopeTrees.tla to the interchange form.
# Every identifier slot holds "@<path>" (the occurrence key of Scopes.tla: statement index, slot, ...).
def x_var(p):
    return {"k": "var", "sig": "", "id": "@" + key(p)}


def x_init(i, p):
    if i["k"] == "lit":
        return {"k": "int", "v": 1}
    if i["k"] == "var":
        return x_var(p)
    return {"k": "call", "name": {"id": "@" + key(p)}, "pseudos": [], "args": []}


def x_block(b, P, cc=False):
    return [x_stmt(s, P + [j + 1], cc) for j, s in enumerate(b)]


def x_stmt(s, Q, cc):
    """cc: the statement is in the body of a `const` function, where raw instructions/registers are not allowed"""
    k = s["k"]
    if k == "use":
        if cc:
            return {"k": "return", "value": x_var(Q + [1])}
        if Q[-1] % 2 == 1:      # odd statements: call argument, even statements: right-hand side
            return {"k": "expr", "e": {"k": "call", "name": {"ins": 101}, "pseudos": [], "args": [x_var(Q + [1])]}}
        return {"k": "assign", "var": {"k": "var", "sig": "", "id": "r1000"}, "op": "=", "value": x_var(Q + [1])}
    if k == "callf":
        return {"k": "expr", "e": {"k": "call", "name": {"id": "@" + key(Q + [1])}, "pseudos": [], "args": []}}
    if k == "local":
        return {"k": "decl", "ty": "int", "vars": [{"var": x_var(Q + [1]), "init": x_init(s["i"], Q + [2])}]}
    if k == "local2":
        return {"k": "decl", "ty": "int", "vars": [{"var": x_var(Q + [1]), "init": {"k": "int", "v": 1}},
                                                    {"var": x_var(Q + [5]), "init": x_init(s["i"], Q + [6])}]}
    if k == "const":
        return {"k": "item", "item": {"k": "const", "ty": "int", "vars": [{"var": x_var(Q + [1]), "init": x_init(s["i"], Q + [2])}]}}
    if k == "blk":
        return {"k": "block", "body": x_block(s["b"], Q + [3], cc)}
    if k == "loop":
        return {"k": "loop", "body": x_block(s["b"], Q + [3], cc)}
    if k == "if":
        return {"k": "chain", "blocks": [{"kw": "if", "cond": COND, "body": x_block(s["b"], Q + [3], cc)}], "else": x_block(s["e"], Q + [4], cc)}
    if k == "func":
        it = {"k": "func", "ty": "int", "ident": "@" + key(Q + [1]), "name": "@" + key(Q + [1]),
              "params": [{"ty": "int", "ident": "@" + key(Q + [10 + j + 1]), "name": "@" + key(Q + [10 + j + 1])} for j in range(len(s["p"]))],
              "body": x_block(s["b"], Q + [3], s["q"] == "const")}
        if s["q"] != "none":
            it["qual"] = s["q"]
        return {"k": "item", "item": it}
    raise lib.ToolError("unknown abstract statement kind %r" % k)


def subst(v, names, field=None):
    """replace the "@<path>" slots by concrete identifiers"""
    if isinstance(v, dict):
        return {k: subst(x, names, k) for k, x in v.items()}
    if isinstance(v, list):
        return [subst(x, names) for x in v]
    if isinstance(v, str) and v.startswith("@"):
        n = names[v[1:]]
        return n if field == "name" else "n:" + n
    return v


def slots(v, out):
    """identifier slots of an interchange tree in one fixed order: (id, sibling `name`)"""
    if isinstance(v, dict):
        for k in sorted(v):
            if k in ("id", "ident") and isinstance(v[k], str):
                out.append((v[k], v.get("name")))
            else:
                slots(v[k], out)
    elif isinstance(v, list):
        for x in v:
            slots(x, out)
    return out


ERR_PATTERNS = [
    ("unknown", re.compile(r"^error: unknown .*'([^']*)'")),
    ("redef", re.compile(r"^error: redefinition of .*'([^']*)'")),
    ("barrier", re.compile(r"^error: cannot use (?:local|parameter) from outside (?:const|function)")),
]


def classify(headings):
    """diagnostic headings -> sorted list of (kind, name); name is None for kinds whose text has no name"""
    out = []
    for h in headings:
        for kind, pat in ERR_PATTERNS:
            m = pat.match(h)
            if m:
                out.append((kind, m.group(1) if m.groups() else None))
                break
        else:
            out.append(("other", h))
    return sorted(out, key=lambda x: (x[0], x[1] or ""))


def tree_class(row):
    """finding key component: what kind of tree is it (family + sorted statement kinds)"""
    kinds = set()

    def walk(b):
        for s in b:
            kinds.add(s["k"])
            for f in ("b", "e"):
                if f in s:
                    walk(s[f])
    walk(row["tree"])
    return row["fam"] + ":" + "+".join(sorted(kinds))


def judge_resolution(chk, row, o):
    text = o["text"]
    res = o["resolve"]
    occs = row["occ"]
    rep = {"row": row, "observed": o}
    if "panic" in res:
        chk.report("panic:resolve:%s" % lib.norm_loc(res["panic"]["loc"]),
                   "resolve_names panics (%s) on:\n%s" % (res["panic"]["msg"], text), rep)
        return
    if "rejected" in res or "unsupported" in res:
        chk.report("rejected:%s" % tree_class(row), "the front end rejects a generated scope tree before name resolution: %s\n%s"
                   % (json.dumps(res), text), rep)
        return
    got = slots(res["obs"], [])
    want = slots(row["keyed"], [])
    pairs = [(w[0][1:], g) for w, g in zip(want, got) if w[0].startswith("@")]
    by_key = {oc["p"]: oc for oc in occs}
    if len(want) != len(got) or len(pairs) != len(occs) or any(by_key[k]["n"] != g[1] for k, g in pairs):
        raise lib.ToolError("rendered tree and parsed tree have different identifier slots:\n%s\n%s" % (text, json.dumps(res["obs"])))
    # --- partition of occurrences by definition
    cls_of_def, def_of_cls = {}, {}
    for k, (gid, _) in pairs:
        oc = by_key[k]
        e = oc["e"]
        if e == "skip":
            chk.add("occurrences_not_determined")
            continue
        chk.add("occurrences_compared")
        resolved = gid.startswith("d")
        if e in ("unknown", "barrier"):
            if resolved:
                chk.report("resolved-but-%s:%s" % (e, tree_class(row)),
                           "`%s` at %s must be an error (%s) but the resolver bound it to %s:\n%s" % (oc["n"], k, e, gid, text), rep)
            continue
        if not resolved:
            chk.report("unresolved:%s:%s" % (oc["role"], tree_class(row)),
                       "`%s` at %s (%s) must refer to %s but the resolver recorded nothing:\n%s" % (oc["n"], k, oc["role"], e, text), rep)
            continue
        if cls_of_def.setdefault(gid, e) != e or def_of_cls.setdefault(e, gid) != gid:
            chk.report("partition:%s" % tree_class(row),
                       "`%s` at %s must refer to %s; the resolver gave it %s which it also gave to %s / gave %s another DefId %s:\n%s"
                       % (oc["n"], k, e, gid, cls_of_def.get(gid), e, def_of_cls.get(e), text), rep)
    # --- diagnostics
    got_errs = classify(res["diag"])
    want_errs = sorted(((e["kind"], None if e["kind"] == "barrier" else e["n"]) for e in row["errs"]), key=lambda x: (x[0], x[1] or ""))
    if row["determined"]:
        if got_errs != want_errs or res["ok"] != (not want_errs):
            chk.report("diagnostics:%s" % tree_class(row),
                       "expected errors %s, resolve_names reported %s (ok=%s):\n%s" % (want_errs, got_errs, res["ok"], text), rep)
    else:
        rest = list(got_errs)
        for w in want_errs:
            if w in rest:
                rest.remove(w)
            else:
                chk.report("diagnostics:%s" % tree_class(row),
                           "expected error %s is missing from %s:\n%s" % (w, got_errs, text), rep)
                break


def judge_renaming(chk, row, o):
    outs = o.get("ren")
    if not outs:
        return
    rep = {"row": row, "observed": o}
    base = outs[0]
    for j, other in enumerate(outs):
        if "panic" in other["out"]:
            chk.report("panic:lower:%s" % lib.norm_loc(other["out"]["panic"]["loc"]),
                       "compiling panics (%s) on:\n%s" % (other["out"]["panic"]["msg"], other["text"]), rep)
            return
    chk.add("renamed_programs", len(outs) - 1)
    if "instrs" in base["out"]:
        chk.add("renamed_trees_compiled")
        if base["out"]["instrs"]:
            chk.add("renamed_trees_with_instructions")
    for j, other in enumerate(outs[1:], 1):
        a, b = base["out"], other["out"]
        same = (a.get("instrs") == b.get("instrs")) if ("instrs" in a and "instrs" in b) else (("err" in a) and ("err" in b))
        if not same:
            chk.report("renaming:r%d:%s" % (j, tree_class(row)),
                       "renaming the bound names changes the compiled output:\n%s--- renamed ---\n%s%s\nvs\n%s"
                       % (base["text"], other["text"], json.dumps(a)[:600], json.dumps(b)[:600]), rep)


def _tlc_family(args):
    fam, mx, path = args
    return fam, lib.tlc("MC_Scopes", env={"FAM": fam, "MAX": str(mx), "OUT": path, "JDK_JAVA_OPTIONS": "-XX:ParallelGCThreads=2"},
                        workers=2, timeout=3000, name="mc_scopes_" + fam, heap="6g")


def _vh_shard(path):
    alt = os.environ.get("VERIF_C10_BIN")     # development knob: a c10 binary built against a mutated copy of truth
    if alt:
        import subprocess
        return subprocess.run([alt, path], stdout=subprocess.PIPE, text=True, env=lib.clean_env(), check=True).stdout
    return lib.vh(["c10", path], timeout=3000).stdout


def run(chk, replay=None):
    wd = lib.workdir("c10")
    t0 = time.time()
    phases = {}
    sizes = dict(SIZES[chk.tier])
    if os.environ.get("VERIF_C10_SIZES"):       # development knob, e.g. VERIF_C10_SIZES=V=2,D=3
        sizes = {kv.split("=")[0]: int(kv.split("=")[1]) for kv in os.environ["VERIF_C10_SIZES"].split(",")}
    # ---- TLC: machine = declarative on every tree of every vocabulary; export rows
    want = None
    if replay:
        want = json.load(open(replay))["case"]["row"]
        sizes = {want["fam"]: sizes.get(want["fam"], SIZES["thorough"][want["fam"]])}
    jobs = [(fam, mx, os.path.join(wd, "rows_%s.ndjson" % fam)) for fam, mx in sorted(sizes.items())]
    with ThreadPoolExecutor(max_workers=4) as ex:
        results = list(ex.map(_tlc_family, jobs))
    rows = []
    fam_counts = {}
    for (fam, mx, path), (_, r) in zip(jobs, results):
        if not r.ok:
            raise lib.ToolError("MC_Scopes (%s): the two formulations of the scoping rules disagree / the machine is stuck\n%s" % (fam, r.out[-4000:]))
        chk.tlc_stats(r)
        part = lib.read_ndjson(path)
        m = re.search(r'<<"GEN", "%s", %d, (\d+)>>' % (fam, mx), r.out)
        if not m or int(m.group(1)) != len(part):
            raise lib.ToolError("MC_Scopes (%s): exported %d rows but enumerated %s cases" % (fam, len(part), m and m.group(1)))
        fam_counts[fam] = {"max_nodes": mx, "cases": len(part)}
        rows += part
    phases["tlc_s"] = round(time.time() - t0, 1)
    for i, row in enumerate(rows):
        row["id"] = i + 1
        row["keyed"] = x_block(row["tree"], [])
    if replay:
        rows = [r for r in rows if r["tree"] == want["tree"] and r["lang"] == want["lang"] and r["fam"] == want["fam"]]
        if not rows:       # a tree outside this tier's bounds: take the recorded expectations
            rows = [dict(want, id=1, keyed=x_block(want["tree"], []))]
    chk.set("families", fam_counts)
    # ---- harness input
    inputs = []
    for row in rows:
        names = {oc["p"]: oc["n"] for oc in row["occ"]}
        with_enum = row["lang"].endswith("+e")
        inp = {"id": row["id"], "lang": row["lang"].replace("+e", ""), "body": subst(row["keyed"], names)}
        if with_enum:
            inp["genum"] = "ALIAS"      # = Scopes!AliasVar: a global enum const spelled like the register alias
        if row["clean"] and inp["lang"] == "own" and row["fam"] not in ("F", "P"):
            inp["ren"] = [subst(row["keyed"], {oc["p"]: oc[r] for oc in row["occ"]}) for r in ("r1", "r2")]
            if with_enum:
                inp["ren_genum"] = ["ge1", "ge2"]
                chk.add("renamed_with_enum_const")
        inputs.append(inp)
    nshards = 6
    paths = []
    for j in range(nshards):
        p = os.path.join(wd, "in_%d.ndjson" % j)
        lib.write_ndjson(p, inputs[j::nshards])
        paths.append(p)
    with ThreadPoolExecutor(max_workers=nshards) as ex:
        outs = list(ex.map(_vh_shard, paths))
    phases["harness_s"] = round(time.time() - t0 - phases["tlc_s"], 1)
    obs = {}
    for text in outs:
        for line in text.splitlines():
            o = json.loads(line)
            obs[o["id"]] = o
    # ---- judge
    for row in rows:
        o = obs.get(row["id"])
        if o is None:
            raise lib.ToolError("harness lost row %s" % row["id"])
        chk.add("traces_validated_against_impl")
        chk.add("cases_" + row["fam"])
        if not row["determined"]:
            chk.add("trees_with_undetermined_occurrences")
        if row["errs"]:
            chk.add("trees_with_expected_errors")
        judge_resolution(chk, row, o)
        judge_renaming(chk, row, o)
        if row["id"] % max(1, len(rows) // 5) == 3 and "obs" in o["resolve"]:
            got = slots(o["resolve"]["obs"], [])
            want = slots(row["keyed"], [])
            exp = {oc["p"]: oc["e"] for oc in row["occ"]}
            chk.sample({"family": row["fam"], "lang": row["lang"], "text": o["text"],
                        "occurrences": [{"at": w[0][1:], "name": g[1], "expected": exp[w[0][1:]], "observed": g[0]}
                                        for w, g in zip(want, got) if w[0].startswith("@")],
                        "diagnostics": o["resolve"].get("diag")})
    chk.set("exhaustive", True)
    chk.set("rule", "every scope tree of the vocabularies V/N/D/F/P of Gen_ScopeTrees.tla up to the listed node counts (x both languages "
                    "when a mapfile alias is mentioned); each is resolved by the real resolve_names and compared occurrence by "
                    "occurrence with Scopes!Declarative; error-free trees without function items are also compiled under two renamings")
    chk.assume("a local and a const of one name declared in the same block, and uses that see a redefinition: generated and run, occurrences not compared")
    chk.assume("function items are resolved but not compiled (renaming half): truth has no code generation for user functions")
    chk.assume("one global enum const (spelled like the register alias, `+e` compilations) is part of the vocabulary; builtin consts (INF, PI, ...) are not")
