"""C20 — a name used in a script compiles to the id its target has in the output file (Mode G)."""
import json, os, struct, subprocess, time
from concurrent.futures import ThreadPoolExecutor
from . import lib, binlayout as bl

LEVEL = "model_checking"
MANIFEST = dict(
    design='DESIGN.md §4 C20',
    technique='TLA+ numbering rules (Numbering.tla) enumerated by TLC over all small layouts; every layout is rendered as a real ANM/MSG/ECL/STD source, compiled with the real CLI, and the output binary is parsed by independent layout readers (spec -> impl replay)',
    text='TLC enumerates every small layout per family (ANM sprites with explicit/auto/constant-expression ids and duplicate names across entries; ANM scripts with explicit numbers, duplicates and a sprite/script name clash; sparse MSG tables with defaults, shared and missing scripts; old-ECL subs; timelines with auto/explicit numbers; STD objects/instances), checks the well-definedness facts of the numbering rules on each, and exports the expected tables / name values or the expected error. Each layout is compiled with the real truth CLI; the written tables and the argument words of every instruction that uses a name are read back with the check\'s own struct readers and compared with the expectation. Exhaustive within the stated bounds.',
    note='Trusted: TLC, CommunityModules Json, the source renderer and the ~200-line layout readers in checks/binlayout.py (field positions only). Not decided: references to missing names that the written MSG table does not need (unused default, keys beyond table_len); duplicate meta keys inside one object; images.',
)

# bounds per tier: family -> (MAXN, MAXE, NAMES, NUMS); MAXE_SMALL = entries for layouts of <= 2 sprites/scripts
MAXE_SMALL = {"quick": 4, "thorough": 5}
BOUNDS = {
    "quick": {
        "anm_sprites": (3, 2, "canon", 2), "anm_scripts": (3, 2, "canon", 3), "msg": (3, 1, "canon", 1),
        "ecl_subs": (4, 1, "canon", 2), "timelines": (4, 1, "canon", 2), "std": (3, 1, "canon", 2),
    },
    "thorough": {
        "anm_sprites": (3, 3, "all", 2), "anm_scripts": (4, 3, "canon", 3), "msg": (4, 1, "canon", 2),
        "ecl_subs": (4, 1, "all", 2), "timelines": (5, 1, "canon", 2), "std": (4, 1, "canon", 2),
    },
}
# games each family is compiled for: family -> tier -> [(game, stride)]; stride k: every k-th layout only
GAMES = {
    "anm_sprites": {"quick": [("12", 1), ("06", 4)], "thorough": [("12", 1), ("06", 1), ("08", 2), ("16", 2)]},
    "anm_scripts": {"quick": [("12", 1)], "thorough": [("12", 1), ("10", 2), ("16", 2)]},
    "msg": {"quick": [("06", 1), ("09", 3)], "thorough": [("06", 1), ("08", 2), ("09", 1), ("12", 2)]},
    "ecl_subs": {"quick": [("06", 1), ("07", 1), ("08", 1)], "thorough": [("06", 1), ("07", 1), ("08", 1), ("09", 1)]},
    "timelines": {"quick": [("07", 1), ("08", 1)], "thorough": [("07", 1), ("08", 1), ("09", 1)]},
    "std": {"quick": [("06", 1), ("12", 1)], "thorough": [("06", 1), ("08", 1), ("12", 1)]},
}
CLI_CROSSCHECKS = {"quick": 150, "thorough": 1500}
FAMILIES = ["anm_sprites", "anm_scripts", "msg", "ecl_subs", "timelines", "std"]
CMD = {"anm_sprites": "truanm", "anm_scripts": "truanm", "msg": "trumsg", "ecl_subs": "truecl", "timelines": "truecl",
       "std": "trustd"}


# ------------------------------------------------------------------ rendering (no semantics: text only)
def render_expr(e):
    k = e["k"]
    if k == "int":
        return str(e["v"])
    if k == "var":
        return e.get("sig", "") + e["id"]
    if k == "bin":
        return "%s %s %s" % (render_expr(e["a"]), e["op"], render_expr(e["b"]))
    raise lib.ToolError("cannot render expression %r" % (e,))


ENTRY_FIELDS = ('    has_data: false,\n    img_width: 16,\n    img_height: 16,\n    img_format: 3,\n    offset_x: 0,\n'
                '    offset_y: 0,\n    colorkey: 0,\n    memory_priority: 0,\n    low_res_scale: false,\n')


def anm_entry(k, sprites):
    s = 'entry {\n    path: "e%d.png",\n%s    sprites: {\n' % (k, ENTRY_FIELDS)
    for sp in sprites:
        idtxt = "" if sp["id"]["k"] == "none" else ", id: " + render_expr(sp["id"])
        s += "        %s: {x: 0.0, y: 0.0, w: 1.0, h: 1.0%s},\n" % (sp["name"], idtxt)
    return s + "    },\n}\n"


def anm_sprite_uses(game, names):
    """one instruction per name, in order; returns (text, [(opcode, dword index)])"""
    g = game
    if g == "06":
        forms = [("ins_1(%s);", 1, 0), ("ins_16(%s, 3);", 16, 0)]
    elif g in ("07", "08", "09", "095", "10"):
        forms = [("ins_3(%s);", 3, 0)]
    elif g in ("11", "12", "125", "128"):
        forms = [("ins_3(%s);", 3, 0), ("ins_102(%s, 7);", 102, 0)]
    else:
        forms = [("ins_300(%s);", 300, 0), ("ins_301(%s, 7);", 301, 0)]
    lines, locs = [], []
    for i, nm in enumerate(names):
        f = forms[i % len(forms)]
        lines.append("    " + f[0] % nm)
        locs.append((f[1], f[2]))
    return "\n".join(lines) + ("\n" if lines else ""), locs


def anm_script_uses(game, names, rot):
    if game in ("10", "095"):
        forms = [("ins_88(%s);", 88), ("ins_90(%s);", 90), ("ins_91(%s);", 91), ("ins_92(%s);", 92)]
    elif game in ("11", "12", "125", "128"):
        forms = [("ins_88(%s);", 88), ("ins_90(%s);", 90), ("ins_95(%s);", 95), ("ins_96(%s, 0.0, 0.0);", 96),
                 ("ins_91(%s);", 91), ("ins_97(%s, 1.0, 1.0);", 97), ("ins_92(%s);", 92)]
    else:
        forms = [("ins_500(%s);", 500), ("ins_501(%s);", 501), ("ins_505(%s, 0.0, 0.0);", 505), ("ins_502(%s);", 502),
                 ("ins_506(%s, 0.0, 0.0);", 506), ("ins_503(%s);", 503), ("ins_504(%s);", 504)]
    lines, locs = [], []
    for i, nm in enumerate(names):
        f = forms[(i + rot) % len(forms)]
        lines.append("    " + f[0] % nm)
        locs.append((f[1], 0))
    return "\n".join(lines) + ("\n" if lines else ""), locs


def render_anm_sprites(case, game):
    lay = case["lay"]
    uses_txt, locs = anm_sprite_uses(game, lay["uses"])
    src = ""
    n = len(lay["entries"])
    for k, sprites in enumerate(lay["entries"]):
        src += anm_entry(k, sprites)
        if k == 0:
            src += "script first {\n%s}\n" % uses_txt          # uses names of later entries before their definition
            src += "const int A = 4;\n"
        if k == n - 1:
            src += "script last {\n%s}\n" % uses_txt
    return src, dict(use_locs=locs)


def sprite_marker_op(game):
    return {"10": 84, "095": 84, "11": 84, "12": 84, "125": 84, "128": 84}.get(game, 303)   # an instruction with one S argument


def render_anm_scripts(case, game):
    lay = case["lay"]
    src = ""
    pos = 0
    locs_all = []
    mop = sprite_marker_op(game)
    spr_op = 3 if game in ("10", "095", "11", "12", "125", "128") else 300
    for k, scripts in enumerate(lay["entries"]):
        src += anm_entry(k, [dict(name="x%d" % k, id=dict(k="none"))])
        for sc in scripts:
            uses_txt, locs = anm_script_uses(game, lay["uses"], pos)
            extra = ""
            # a name that is both a sprite and a script: in a sprite position it must be the sprite's id
            clash = [nm for nm in lay["uses"] if nm == "x0"]
            for nm in clash:
                extra += "    ins_%d(%s);\n" % (spr_op, nm)
            num = "" if sc["num"] < 0 else "%d " % sc["num"]
            src += "script %s%s {\n    ins_%d(%d);\n%s%s}\n" % (num, sc["name"], mop, 1000 + pos, uses_txt, extra)
            locs_all.append(dict(uses=locs, clash=[(spr_op, nm) for nm in clash]))
            pos += 1
    return src, dict(script_locs=locs_all, marker_op=mop)


def render_msg(case, game):
    lay = case["lay"]
    flags = bl.msg_has_flags(game)
    s = "meta {\n"
    if lay["len"] >= 0:
        s += "    table_len: %d,\n" % lay["len"]
    s += "    table: {\n"

    def ent(v):
        val = "0" if v == "0" else '"%s"' % v
        return "{script: %s%s}" % (val, ", flags: 256" if flags and v != "0" else "")
    for e in lay["sparse"]:
        s += "        %d: %s,\n" % (e["key"], ent(e["script"]))
    if lay["default"] != "":
        s += "        default: %s,\n" % ent(lay["default"])
    s += "    },\n}\n"
    markers = {}
    mop = 4 if game in ("06", "07", "08", "09") else 10      # an instruction with one S argument
    for i, nm in enumerate(lay["scripts"]):
        markers.setdefault(nm, 1000 + i)
        s += "script %s {\n    ins_%d(%d);\n+10:\n    ins_%d(%d);\n}\n" % (nm, mop, 1000 + i, mop, 2000 + i)
    return s, dict(markers=markers, marker_op=mop)


ECL_FORMS = {
    # game: (marker instr, [call forms (text, opcode, dword index)], timeline form (text, opcode, "arg0"|dword index))
    "06": ("ins_10(%d);", 10, [("ins_35(%s, 0, 0.0);", 35, 0), ("ins_108(%s);", 108, 0), ("ins_109(%s, 5);", 109, 0),
                                ("ins_114(%s);", 114, 0), ("ins_116(%s);", 116, 0)],
           ("ins_0(%s, 0.0, 0.0, 0.0, 1, 2, 3);", 0, "arg0")),
    "07": ("ins_45(%d);", 45, [("ins_41(%s);", 41, 0), ("ins_113(%s);", 113, 0), ("ins_108(%s, 5);", 108, 0),
                                ("ins_144(5, %s);", 144, 1), ("ins_115(%s);", 115, 0)],
           ("ins_0(%s, 0.0, 0.0, 0.0, 1, 2, 3);", 0, "arg0")),
    "08": ("ins_2(%d);", 2, [("ins_52(%s);", 52, 0), ("ins_126(%s, 5);", 126, 0), ("ins_134(5, %s);", 134, 1),
                              ("ins_88(5, %s);", 88, 1)],
           ("ins_0(%s, 0.0, 0.0, 1, 2, 3);", 0, 0)),
}
ECL_FORMS["09"] = ECL_FORMS["08"]


def render_ecl_subs(case, game):
    lay = case["lay"]
    mtxt, mop, calls, tl = ECL_FORMS[game]
    s = ""
    # the timeline comes first: every sub is used before its definition
    s += "script timeline0 {\n" + "".join("    " + tl[0] % nm + "\n" for nm in lay["uses"]) + "}\n"
    locs_all = []
    for i, nm in enumerate(lay["subs"]):
        lines, locs = [], []
        for j, u in enumerate(lay["uses"]):
            f = calls[(i + j) % len(calls)]
            lines.append("    " + f[0] % u)
            locs.append((f[1], f[2]))
        s += "void %s() {\n    %s\n%s}\n" % (nm, mtxt % (1000 + i), "".join(l + "\n" for l in lines))
        locs_all.append(locs)
    return s, dict(sub_locs=locs_all, marker_op=mop, tl_op=tl[1], tl_where=tl[2])


def render_timelines(case, game):
    lay = case["lay"]
    s = "void sub0() {}\n"
    for i, num in enumerate(lay["tls"]):
        body = ("ins_10(%d, 0);" if game == "07" else "ins_10(%d);") % (1000 + i)
        s += "script %st%d {\n    %s\n}\n" % ("" if num < 0 else "%d " % num, i, body)
    return s, {}


def render_std(case, game):
    lay = case["lay"]
    s = "meta {\n    unknown: 0,\n"
    if game in ("06", "07", "08", "09"):
        s += ('    stage_name: "dm",\n    bgm: [\n' + '        {path: "bgm/a.mid", name: "dm"},\n' * 4 + "    ],\n")
    else:
        s += '    anm_path: "stage01.anm",\n'
    s += "    objects: {\n"
    for i, nm in enumerate(lay["objects"]):
        s += ("        %s: {layer: %d, pos: [0.0, 0.0, 0.0], size: [1.0, 1.0, 1.0], quads: ["
              "rect {anm_script: %d, pos: [0.0, 0.0, 0.0], size: [1.0, 1.0]}]},\n" % (nm, 100 + i, i))
    s += "    },\n    instances: [\n"
    for nm in lay["insts"]:
        s += "        %s {pos: [1.0, 2.0, 3.0]},\n" % nm
    s += "    ],\n}\nscript main {\n}\n"
    return s, {}


RENDER = {"anm_sprites": render_anm_sprites, "anm_scripts": render_anm_scripts, "msg": render_msg,
          "ecl_subs": render_ecl_subs, "timelines": render_timelines, "std": render_std}


# ------------------------------------------------------------------ driving the real code
def cli_compile(job, env):
    """the real CLI binary -> (rc, stderr, bytes or None)"""
    spec, out = job["spec"], job["out"] + ".cli"
    p = subprocess.run([lib.TRUTH_CORE, job["cmd"], "compile", spec, "-g", job["game"], "-o", out],
                       stdout=subprocess.PIPE, stderr=subprocess.PIPE, env=env, timeout=120)
    data = None
    if os.path.exists(out):
        with open(out, "rb") as f:
            data = f.read()
        os.unlink(out)
    return p.returncode, p.stderr.decode("utf-8", "replace"), data


def batch_compile(jobs, wd, shards=8):
    """in-process batch driver (harness/src/bin/c20.rs: the steps of cli_def::*_compile::run through the public
    API), sharded over processes -> list of (rc, stderr, bytes or None) in job order"""
    for j in jobs:
        j["spec"] = os.path.join(wd, "j%d.spec" % j["idx"])
        j["out"] = os.path.join(wd, "j%d.bin" % j["idx"])
        with open(j["spec"], "w") as f:
            f.write(j["src"])
    parts = [jobs[k::shards] for k in range(shards)]
    parts = [p for p in parts if p]

    def one(k):
        path = os.path.join(wd, "jobs_%d.ndjson" % k)
        lib.write_ndjson(path, [dict(idx=j["idx"], cmd=j["cmd"], game=j["game"], spec=j["spec"], out=j["out"]) for j in parts[k]])
        p = lib.vh(["c20", path], timeout=3000)
        return [json.loads(l) for l in p.stdout.splitlines()]
    res = {}
    with ThreadPoolExecutor(max_workers=len(parts) or 1) as ex:
        for rows in ex.map(one, range(len(parts))):
            for r in rows:
                res[r["idx"]] = (r["rc"], r["stderr"], bytes.fromhex(r["hex"]) if r["hex"] is not None else None)
    if len(res) != len(jobs):
        raise lib.ToolError("batch driver lost jobs")
    return [res[j["idx"]] for j in jobs]


# ------------------------------------------------------------------ observation (layout readers) + comparison
class Mismatch(Exception):
    def __init__(self, kind, what):
        Exception.__init__(self, what)
        self.kind, self.what = kind, what


def value_of(exp, name):
    for m in exp["map"]:
        if m["name"] == name:
            return m["v"]
    raise lib.ToolError("expectation has no value for %s" % name)


def find_instr(instrs, k, opcode):
    if k >= len(instrs) or instrs[k]["opcode"] != opcode:
        raise Mismatch("instr-stream", "instruction %d is not opcode %d: %s" % (
            k, opcode, [i["opcode"] for i in instrs]))
    return instrs[k]


def observe_anm_sprites(case, game, aux, data):
    exp, lay = case["exp"], case["lay"]
    entries = bl.read_anm(data, game)
    if len(entries) != len(lay["entries"]):
        raise Mismatch("entry-count", "%d entries written, %d in the source" % (len(entries), len(lay["entries"])))
    got_ids = [sp["id"] for e in entries for sp in e["sprites"]]
    obs = dict(sprite_ids=got_ids)
    if [len(e["sprites"]) for e in entries] != [len(e) for e in lay["entries"]]:
        raise Mismatch("sprite-count", "sprites per entry %s" % [len(e["sprites"]) for e in entries])
    if got_ids != exp["file"]:
        raise Mismatch("sprite-ids", "sprite ids in the file are %s, the numbering rule gives %s" % (got_ids, exp["file"]))
    scripts = [s for e in entries for s in e["scripts"]]
    obs["args"] = []
    for s in scripts:
        for k, (nm, (op, di)) in enumerate(zip(lay["uses"], aux["use_locs"])):
            ins = find_instr(s["instrs"], k, op)
            got = bl.dwords(ins["args"])[di]
            obs["args"].append(got)
            if got != value_of(exp, nm):
                raise Mismatch("sprite-arg", "ins_%d(%s) was written with %d but sprite %s has id %d in the file" % (
                    op, nm, got, nm, value_of(exp, nm)))
    return obs


def observe_anm_scripts(case, game, aux, data):
    exp, lay = case["exp"], case["lay"]
    entries = bl.read_anm(data, game)
    scripts = [s for e in entries for s in e["scripts"]]
    flat = [sc for e in lay["entries"] for sc in e]
    if [len(e["scripts"]) for e in entries] != [len(e) for e in lay["entries"]]:
        raise Mismatch("script-count", "scripts per entry %s" % [len(e["scripts"]) for e in entries])
    got_ids = [s["id"] for s in scripts]
    obs = dict(script_ids=got_ids, args=[])
    if got_ids != exp["file"]:
        raise Mismatch("script-ids", "script ids in the table are %s, the numbering rule gives %s" % (got_ids, exp["file"]))
    # which source script sits at which position of the file
    for filepos, s in enumerate(scripts):
        m = find_instr(s["instrs"], 0, aux["marker_op"])
        srcpos = bl.dwords(m["args"])[0] - 1000
        if not (0 <= srcpos < len(flat)):
            raise Mismatch("instr-stream", "bad marker %d" % (srcpos + 1000))
        want = value_of(exp, flat[srcpos]["name"])
        if filepos != want:
            raise Mismatch("script-index", "script %s is at position %d of the file, its name stands for %d" % (
                flat[srcpos]["name"], filepos, want))
        loc = aux["script_locs"][srcpos]
        for k, (nm, (op, di)) in enumerate(zip(lay["uses"], loc["uses"])):
            ins = find_instr(s["instrs"], 1 + k, op)
            got = bl.dwords(ins["args"])[di]
            obs["args"].append(got)
            if got != value_of(exp, nm):
                raise Mismatch("script-arg", "ins_%d(%s) was written with %d but script %s is at position %d" % (
                    op, nm, got, nm, value_of(exp, nm)))
        for k, (op, nm) in enumerate(loc["clash"]):
            ins = find_instr(s["instrs"], 1 + len(lay["uses"]) + k, op)
            got = bl.dwords(ins["args"])[0]
            sprite_id_in_file = entries[0]["sprites"][0]["id"]        # x0 is the sprite of entry 0
            if got != sprite_id_in_file:
                raise Mismatch("clash-arg", "ins_%d(%s) (a sprite argument) was written with %d, the sprite %s has id %d" % (
                    op, nm, got, nm, sprite_id_in_file))
    return obs


def observe_msg(case, game, aux, data):
    exp, lay = case["exp"], case["lay"]
    msg = bl.read_msg(data, game)
    obs = dict(len=msg["len"], offsets=[e["offset"] for e in msg["table"]])
    if msg["len"] != len(exp["map"]):
        raise Mismatch("table-len", "table length %d, expected %d" % (msg["len"], len(exp["map"])))
    by_name = {}
    for slot, e in zip(exp["map"], msg["table"]):
        nm = slot["name"]
        if nm == "0":
            if e["offset"] != 0:
                raise Mismatch("table-slot", "slot %d must stay 0, holds %#x" % (slot["v"], e["offset"]))
            continue
        if e["offset"] == 0:
            raise Mismatch("table-slot", "slot %d names %s but holds offset 0" % (slot["v"], nm))
        instrs = msg["scripts"].get(e["offset"])
        if not instrs or instrs[0]["opcode"] != aux["marker_op"] or len(instrs[0]["args"]) < 4:
            raise Mismatch("table-slot", "slot %d (%s): no script starts at offset %#x" % (slot["v"], nm, e["offset"]))
        marker = bl.dwords(instrs[0]["args"])[0]
        if marker != aux["markers"][nm]:
            other = [k for k, v in aux["markers"].items() if v == marker]
            raise Mismatch("table-slot", "slot %d names script %s but points at script %s" % (slot["v"], nm, other or marker))
        if by_name.setdefault(nm, e["offset"]) != e["offset"]:
            raise Mismatch("shared-offset", "script %s is referenced through two different offsets" % nm)
        if msg_flags_expected(game) and e["flags"] != 256:
            raise Mismatch("table-flags", "slot %d flags %d" % (slot["v"], e["flags"]))
    if len(set(by_name.values())) != len(by_name):
        raise Mismatch("shared-offset", "two different scripts share an offset: %s" % by_name)
    return obs


def msg_flags_expected(game):
    return bl.msg_has_flags(game)


def observe_ecl_subs(case, game, aux, data):
    exp, lay = case["exp"], case["lay"]
    ecl = bl.read_ecl_old(data, game)
    obs = dict(num_subs=ecl["num_subs"], args=[])
    if ecl["num_subs"] != len(lay["subs"]):
        raise Mismatch("sub-count", "%d subs written, %d in the source" % (ecl["num_subs"], len(lay["subs"])))
    for filepos, sub in enumerate(ecl["subs"]):
        m = find_instr(sub["instrs"], 0, aux["marker_op"])
        srcpos = bl.dwords(m["args"])[0] - 1000
        if not (0 <= srcpos < len(lay["subs"])):
            raise Mismatch("instr-stream", "bad marker %d" % (srcpos + 1000))
        nm = lay["subs"][srcpos]
        if filepos != value_of(exp, nm):
            raise Mismatch("sub-index", "sub %s is at position %d of the file, its name stands for %d" % (nm, filepos, value_of(exp, nm)))
        for k, (u, (op, di)) in enumerate(zip(lay["uses"], aux["sub_locs"][srcpos])):
            ins = find_instr(sub["instrs"], 1 + k, op)
            got = bl.dwords(ins["args"])[di]
            obs["args"].append(got)
            if got != value_of(exp, u):
                raise Mismatch("sub-arg", "ins_%d(..%s..) was written with %d but sub %s is at position %d" % (op, u, got, u, value_of(exp, u)))
    if len(ecl["timelines"]) != 1:
        raise Mismatch("timeline-count", "%d timelines" % len(ecl["timelines"]))
    for k, u in enumerate(lay["uses"]):
        ins = find_instr(ecl["timelines"][0]["instrs"], k, aux["tl_op"])
        got = ins["arg0"] if aux["tl_where"] == "arg0" else bl.dwords(ins["args"])[aux["tl_where"]]
        obs["args"].append(got)
        if got != value_of(exp, u):
            raise Mismatch("timeline-sub-arg", "timeline ins_%d(%s, ...) was written with %d but sub %s is at position %d" % (
                aux["tl_op"], u, got, u, value_of(exp, u)))
    return obs


def observe_timelines(case, game, aux, data):
    exp, lay = case["exp"], case["lay"]
    ecl = bl.read_ecl_old(data, game)
    n = len(lay["tls"])
    obs = dict(count_field=ecl["timeline_field"], order=[])
    if len(ecl["timelines"]) != n or ecl["timeline_field"] != n:
        raise Mismatch("timeline-count", "%d timelines in the offset array, header says %d, source has %d" % (
            len(ecl["timelines"]), ecl["timeline_field"], n))
    for filepos, tl in enumerate(ecl["timelines"]):
        m = find_instr(tl["instrs"], 0, 10)
        srcpos = bl.dwords(m["args"])[0] - 1000
        obs["order"].append(srcpos)
        if not (0 <= srcpos < n):
            raise Mismatch("instr-stream", "bad marker %d" % (srcpos + 1000))
        if exp["file"][srcpos] != filepos:
            raise Mismatch("timeline-index", "timeline #%d of the source (%s) is at index %d of the file, expected %d" % (
                srcpos, "number %d" % lay["tls"][srcpos] if lay["tls"][srcpos] >= 0 else "no number", filepos, exp["file"][srcpos]))
    return obs


def observe_std(case, game, aux, data):
    exp, lay = case["exp"], case["lay"]
    std = bl.read_std(data, game)
    obs = dict(object_ids=[o["id"] for o in std["objects"]], layers=[o["layer"] for o in std["objects"]],
               instances=[i["object"] for i in std["instances"]])
    if std["num_objects"] != len(lay["objects"]):
        raise Mismatch("object-count", "%d objects written" % std["num_objects"])
    for filepos, o in enumerate(std["objects"]):
        srcpos = o["layer"] - 100
        if not (0 <= srcpos < len(lay["objects"])):
            raise Mismatch("instr-stream", "bad object marker %d" % o["layer"])
        nm = lay["objects"][srcpos]
        if filepos != value_of(exp, nm) or o["id"] != filepos:
            raise Mismatch("object-index", "object %s is at position %d with id %d, its name stands for %d" % (nm, filepos, o["id"], value_of(exp, nm)))
    if obs["instances"] != exp["file"]:
        raise Mismatch("instance-object", "instances refer to objects %s, expected %s (objects %s, instances %s)" % (
            obs["instances"], exp["file"], lay["objects"], lay["insts"]))
    return obs


OBSERVE = {"anm_sprites": observe_anm_sprites, "anm_scripts": observe_anm_scripts, "msg": observe_msg,
           "ecl_subs": observe_ecl_subs, "timelines": observe_timelines, "std": observe_std}


def first_error_line(stderr):
    for l in stderr.splitlines():
        if l.startswith("error") or "panicked" in l:
            return l[:200]
    return stderr.strip().splitlines()[0][:200] if stderr.strip() else ""


# ------------------------------------------------------------------ the check
def generate(chk, families, tier, wd):
    def one(fam):
        maxn, maxe, names, nums = BOUNDS[tier][fam]
        out = os.path.join(wd, "cases_%s.ndjson" % fam)
        r = lib.tlc("Gen_Numbering", env={"OUT": out, "FAMILY": fam, "MAXN": str(maxn), "MAXE": str(maxe), "MAXE_SMALL": str(max(maxe, MAXE_SMALL[tier]) if fam.startswith("anm_") else maxe), "NAMES": names,
                                          "NUMS": str(nums)}, workers=2, timeout=1500, name="Gen_Numbering_" + fam)
        return fam, out, r
    cases = {}
    with ThreadPoolExecutor(max_workers=3) as ex:
        for fam, out, r in ex.map(one, families):
            if not r.ok:
                raise lib.ToolError("Gen_Numbering (%s): an in-model fact of the numbering rules fails\n%s" % (fam, r.out[-3000:]))
            chk.tlc_stats(r)
            rows = lib.read_ndjson(out)
            rows.sort(key=lambda c: json.dumps(c["lay"], sort_keys=True))
            cases[fam] = rows
            chk.set("layouts_" + fam, len(rows))
    return cases


def run(chk, replay=None):
    tier = chk.tier
    wd = lib.workdir("c20")
    families = [f for f in FAMILIES if f in os.environ.get("VERIF_C20_FAMILIES", ",".join(FAMILIES)).split(",")]   # development aid
    only = None
    if replay:
        rc = json.load(open(replay))["case"]
        families = [rc["case"]["fam"]]
        only = (json.dumps(rc["case"]["lay"], sort_keys=True), rc["game"])
        tier = rc.get("tier", tier)
    t0 = time.time()
    cases = generate(chk, families, tier, wd)
    chk.set("seconds_tlc", round(time.time() - t0, 1))
    env = lib.clean_env()
    jobs = []
    t0 = time.time()
    for fam in families:
        for ci, case in enumerate(cases[fam]):
            for game, stride in GAMES[fam][tier]:
                if ci % stride != 0 and not only:
                    continue
                if only and only != (json.dumps(case["lay"], sort_keys=True), game):
                    continue
                src, aux = RENDER[fam](case, game)
                jobs.append(dict(idx=len(jobs), cmd=CMD[fam], game=game, src=src, case=case, aux=aux, fam=fam))
    if replay and not jobs:
        raise lib.ToolError("the replayed layout is not generated any more")
    chk.set("seconds_render", round(time.time() - t0, 1))
    t0 = time.time()
    results = batch_compile(jobs, wd)
    chk.set("seconds_compile", round(time.time() - t0, 1))
    # the in-process driver must be indistinguishable from the real CLI binary: re-run a stride through the CLI
    stride = 1 if replay else max(1, len(jobs) // CLI_CROSSCHECKS[tier])
    picked = jobs[::stride]
    t0 = time.time()
    with ThreadPoolExecutor(max_workers=8) as ex:
        cli = list(ex.map(lambda j: cli_compile(j, env), picked))
    chk.set("seconds_cli_crosscheck", round(time.time() - t0, 1))
    for j, (rc, stderr, data) in zip(picked, cli):
        brc, bstderr, bdata = results[j["idx"]]
        chk.add("cli_crosschecked")
        if rc != brc or (rc == 0 and data != bdata):
            raise lib.ToolError("the batch driver and the real CLI disagree on\n%s\nCLI rc=%s %s\nbatch rc=%s %s" % (
                j["src"], rc, stderr[:300], brc, bstderr[:300]))
    n_ok = n_err = n_dupok = 0
    for job, (rc, stderr, data) in zip(jobs, results):
        case, fam, game = job["case"], job["fam"], job["game"]
        exp = case["exp"]
        chk.add("traces_validated_against_impl")
        chk.add("replayed_" + fam)
        rep = dict(case=case, game=game, tier=tier, source=job["src"], rc=rc, stderr=stderr[:2000])
        pre = "%s/th%s" % (fam, game)
        if rc not in (0, 1) or "panicked at" in stderr:
            chk.report("%s:panic:%s" % (pre, first_error_line(stderr)[:60]), "compiling a %s layout crashes (rc=%d): %s\n%s" % (
                fam, rc, first_error_line(stderr), job["src"]), rep)
            continue
        if not exp["ok"]:
            n_err += 1
            if rc == 0:
                chk.report("%s:accepted:%s" % (pre, exp["err"]), "a layout that must be rejected (%s) compiles without an error:\n%s" % (
                    exp["err"], job["src"]), rep)
            elif "error" not in stderr:
                chk.report("%s:no-diagnostic:%s" % (pre, exp["err"]), "compile fails without a diagnostic:\n%s" % job["src"], rep)
            continue
        n_ok += 1
        if rc != 0 or data is None:
            chk.report("%s:rejected-valid" % pre, "a valid layout is rejected: %s\n%s" % (first_error_line(stderr), job["src"]), rep)
            continue
        try:
            obs = OBSERVE[fam](case, game, job["aux"], data)
        except Mismatch as m:
            rep["hex"] = data[:4096].hex()
            chk.report("%s:%s" % (pre, m.kind), "%s\n%s" % (m.what, job["src"]), rep)
            continue
        except bl.Layout as e:
            rep["hex"] = data[:4096].hex()
            chk.report("%s:unreadable-output" % pre, "the written file does not have the documented layout: %s\n%s" % (e, job["src"]), rep)
            continue
        if fam == "anm_sprites":
            names = [sp["name"] for e in case["lay"]["entries"] for sp in e]
            if len(set(names)) < len(names):
                n_dupok += 1
        if job["idx"] % max(1, len(jobs) // 5) == 3:
            chk.sample(dict(family=fam, game=game, layout=case["lay"], expected=exp, observed=obs, source=job["src"]))
    chk.set("expected_ok", n_ok)
    chk.set("expected_error", n_err)
    chk.set("equal_valued_duplicate_sprite_names_accepted", n_dupok)
    chk.set("exhaustive", True)
    chk.set("rule", "every layout within the bounds %s is enumerated by TLC (Gen_Numbering) and compiled for the games %s" % (
        json.dumps(BOUNDS[tier]), json.dumps({f: GAMES[f][tier] for f in FAMILIES})))
    chk.assume("a reference to a missing script that the written MSG table does not need (unused default, key beyond table_len) is not decided")
    chk.assume("sprite/object tables are ordered maps with distinct keys inside one object (duplicate keys are not generated)")
    chk.assume("the layout readers in checks/binlayout.py locate the tables correctly (field order/widths only)")
    if not replay:
        # growth beyond the listed property: the compile pipelines that produced these files ran their passes in
        # an order the documented requires/provides machine (spec/Pipeline.tla) allows -- recorded via pass hooks
        from . import extra_pipeline
        extra_pipeline.run(chk)
