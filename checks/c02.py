"""C02 — compiling expressions and statements preserves what the script does (Mode P, AstSem x RawSem)."""
import json, os
from . import lib, gen_progs

LEVEL = "translation_validation"
MANIFEST = dict(
    design="DESIGN.md §4 C02, §3 (RawSem, Product)",
    technique="TLC model-checks the product of the TLA+ script machine on the source tree (AstSem) and on the decoded instructions emitted by the real Lowerer (RawSem), from every initial register valuation x difficulty, under a family of language configurations (translation validation of each compile)",
    text="Each generated body (expressions over int/float registers and locals, casts, sigils, ternaries, difficulty switches, assignment operators, conditional and counting jumps, calls with complex arguments, blocks) is compiled by the real pipeline under 12 language configurations (native vs fallback encodings, two-part compare+jump, counting-jump flavours, jump argument orders, scratch pools of size 0..4, default-on difficulty flags); the emitted RawInstr list is decoded structurally and TLC explores the product of the source machine and the instruction machine from all valuations of the mentioned registers over a 3/4-value domain and difficulties 0-3, checking call logs (time, real time, opcode, argument values) and the final values of all watched registers; unmentioned pool registers start with a canary value.",
    note="Trusted: TLC; the structural exporter/decoder (4-byte fields + parameter mask, signatures the harness itself declared); AstSem/RawSem reading of the docs. Not decided: float rounding/transcendentals/NaN (dyadic envelope), run-time division by zero, negative times() counts; bounded by 150 source steps.",
)


def harness_pairs(chk, progs, tag):
    wd = lib.workdir("c02_" + tag)
    path = os.path.join(wd, "progs.ndjson")
    lib.write_ndjson(path, progs)
    p = lib.vh(["c02", path])
    pairs = []
    for line in p.stdout.splitlines():
        o = json.loads(line)
        chk.add("evaluations")
        if "panic" in o:
            chk.report("panic:%s" % lib.norm_loc(o["panic"]["loc"]),
                       "compiling panics: %s\n%s" % (o["panic"]["msg"], o["text"]), {"program": o["text"], "panic": o["panic"]})
        elif "rejected" in o:
            chk.add("rejected")
        elif "unsupported" in o:
            chk.add("unsupported")
        elif o.get("warn"):
            chk.add("rejected_with_warning")
        else:
            if o.get("dead_scratch"):
                # a register the source mentions only in a ternary branch removed by constant folding was handed
                # out as scratch (hook events).  Reported under its own key; that register is left out of the
                # watched set so that every other difference in the same program is still judged.
                chk.add("dead_mention_scratch")
                chk.report("scratch:mentioned-only-in-constant-dead-code",
                           "register(s) %s mentioned only in constant-folded dead code are used as scratch in\n%s"
                           % (",".join(o["dead_scratch"]), o["text"]),
                           {"program": o["text"], "dead_scratch": o["dead_scratch"],
                            "alloc_events": [e for e in o.get("events", []) if e.get("ev") == "alloc"]})
            for k in ("events", "raw", "mentioned", "scratch_int", "scratch_float", "warn", "dead_scratch"):
                o.pop(k, None)
            pairs.append(o)
    return pairs


def run(chk, replay=None):
    quick = chk.tier == "quick"
    per_cfg = 40 if quick else 900
    configs = gen_progs.lang_configs()
    if replay:
        case = json.load(open(replay))["case"]
        lib.product_check(chk, "ProductRaw", case["cfg"], [case["pair"]], "c02_replay")
        chk.add("programs", 1)
        chk.sample({"replayed": case["pair"].get("text")})
        return
    for ci, (name, cfg) in enumerate(configs):
        progs = gen_progs.expr_programs(chk.seed * 100 + ci, per_cfg, cfg)
        pairs = harness_pairs(chk, progs, name)
        chk.add("programs", len(pairs))
        # "the pass did something": more than one instruction for some statement or a temporary was needed
        chk.add("disagreements_checked", sum(1 for p in pairs if p["ninstr"] > sum(1 for s in p["src"] if s["k"] in ("expr", "assign", "decl", "condjump", "jump"))))
        flav = "gt" if cfg["count_jmp"] == ">" else "ne"
        tcfg = "ProductRaw_%s%s.cfg" % (flav, "" if quick else "_wide")
        cov = lib.product_check(chk, "ProductRaw", tcfg, pairs, "c02_" + name, timeout=900 if quick else 3000)
        for k, v in cov.items():
            chk.add(k, v)
        chk.add("configs")
        if pairs and ci % 4 == 0:
            chk.sample({"config": name, "source": pairs[0]["text"], "instructions": len(pairs[0]["instrs"])})
    # the systematic "interactions" family: every aliasing pattern between destination, operands and temporaries
    cfgs = dict(configs)
    inter_cfgs = ["native", "small-pool"] if quick else ["native", "small-pool", "fallback-unop", "assign-only-direct", "no-binops", "pool-1"]
    stride = 4 if quick else 1
    for name in inter_cfgs:
        cfg = cfgs[name]
        progs = (gen_progs.interaction_programs(cfg) + gen_progs.interaction_programs(cfg, start_id=10001, floats=True))[::stride]
        pairs = harness_pairs(chk, progs, "inter_" + name)
        chk.add("programs", len(pairs))
        chk.add("interaction_programs", len(pairs))
        chk.add("disagreements_checked", sum(1 for p in pairs if p["ninstr"] > 3))
        tcfg = "ProductRaw_ne%s.cfg" % ("" if quick else "_wide")
        cov = lib.product_check(chk, "ProductRaw", tcfg, pairs, "c02_inter_" + name, timeout=900 if quick else 3000, per_shard=60)
        for k, v in cov.items():
            chk.add(k, v)
    chk.set("explanation", "programs = (source tree, decoded real Lowerer output) pairs checked in the TLA+ product machine from every "
                           "valuation of the mentioned registers x difficulty; disagreements_checked = pairs where lowering emitted more "
                           "instructions than there are simple statements (temporaries / multi-instruction encodings)")
    chk.assume("float arithmetic decided only inside the dyadic envelope (F32.tla); runs leaving it are discarded and counted")
    chk.assume("|| and && appear only in conditions (their value semantics is compared by truthiness only, see C11)")
