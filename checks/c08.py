"""C08 — printed scripts parse back to the same script at every line width (Mode G + H)."""
import glob, json, os, re, time
from concurrent.futures import ThreadPoolExecutor
from . import lib

LEVEL = "model_checking"
MANIFEST = dict(
    design='DESIGN.md §4 C08; design_notes/C08.md',
    technique='TLA+ syntax specification (operator table, NeedsParens, token gluing, model printer/parser, Norm) enumerated by TLC; every '
              'enumerated tree is built as a real AST, printed by the real formatter at many widths and re-read by the real parser; a TLA+ '
              'trace specification of the Format/Parse contract judges the recorded histories',
    text='TLC enumerates all expression trees of depth <= 3 over one operator per precedence level, prefix operators, casts, ternaries and '
         'difficulty switches with holes, every boundary literal / hazardous name at every operand position, metadata trees of depth <= 3 and '
         'every statement and item form; in-model it checks that the specification\'s own minimal-parenthesis, minimal-space printer is read back '
         'by the specification\'s parser as the same tree (up to Norm) on the whole family. The harness builds each tree as a real AST (checked by '
         're-export), prints it with the real formatter at widths 1..200 (a width set per family), parses every distinct text with the real '
         'parser, prints again, and also feeds the model\'s minimal spelling to the real lexer/parser; the same is done for every decompiler '
         'output of the bundled binaries, compile->decompile outputs and every parseable source in the integration tests. TLC (Trace_FmtParse) '
         'replays each recorded history against the contract: Format/Parse are functions, Parse(Format(a,w)) is accepted and equal to a under '
         'Norm (applied by TLC to both exported subtrees), Format(Parse(Format(a,w)),w) = Format(a,w), no panic.',
    note='Trusted: TLC, CommunityModules Json, the structural AST<->JSON exporter/builder (self-checked by re-export) and the generic '
         'first-difference JSON diff. Norm folds a unary minus into a numeric literal and reads the built-in constants true/false/INF/NAN as '
         'literals (assumes they are not shadowed); int radix hints are not part of a literal\'s value. Where lines break is not modelled, only '
         'that every layout re-reads.',
)

WIDTHS_QUICK = "1,8,20,40,99,200"
OFFSETS = {"expr": 0, "meta": 1000000, "stmt": 2000000, "corpus": 3000000}
GEN = {"expr": "Gen_ExprTrees", "meta": "Gen_MetaTrees", "stmt": "Gen_StmtTrees"}

# ANM sources that are compiled by the real compiler and decompiled again (the decompiler's own ASTs:
# radix hints, negative literals, recovered blocks).  Inputs only; nothing here is judged.
ANM_ENTRY = '''entry {
    path: "subdir/file.png", has_data: false, rt_width: 512, rt_height: 512, rt_format: 3,
    offset_x: 0, offset_y: 0, colorkey: 0xff00ff, memory_priority: 0, low_res_scale: false,
    sprites: {sprite0: {id: 0, x: 1.0, y: -1.5, w: 111.0, h: 0.000001}, sprite7: {id: 7, x: 0.0, y: 0.0, w: 50.0, h: 50.0}},
}
'''
ANM_SCRIPTS = [
    'script script0 { ins_0(); ins_1(); }',
    'script script0 { I0 = -3; I1 = I0 + 0x7fffffff; F0 = -0.0; F1 = F0 * -1.5; I2 = -2147483648; ins_0(); }',
    'script script0 { I0 = 3; times(I0) { F0 = F0 + 1.0; } loop { I1 = I1 - 1; if (I1 == 0) goto end; } end: ins_0(); }',
    'script script0 {\n10:\n I0 = 1;\n+5:\n if (I0 != -1) { I0 = 2; } else { I0 = 3; }\n-1:\n ins_0();\n}',
    'script script0 { I0 = RAND % 3; F2 = RANDF; I3 = I0 < 2; I3 = (I0 * 2) + (I1 / 3); ins_0(); }',
    'script script0 { interrupt[1]: ins_0(); interrupt[2]: interrupt[-1]: I0 = 0; while (--I0) { ins_1(); } ins_0(); }',
    'script -45 script0 { ins_0(); }\nscript script1 { scriptNew(script0); sprite(sprite7); sprite(-1); ins_0(); }',
    'script script0 { ins_9999(@mask=0b101, @blob="00ff00ff 12345678 00000080"); ins_0(); }',
]


def corpus_entries(wd, quick):
    out = []

    def add(**kw):
        kw["id"] = len(out) + 1
        out.append(kw)
    files = sorted(glob.glob(lib.REPO + "/tests/integration/bits-2-bits/*")) + sorted(glob.glob(lib.REPO + "/tests/integration/resources/*.anm"))
    for f in files:
        m = re.match(r"(th\d+)-", os.path.basename(f))
        if not m:
            continue
        for variant in ("default", "raw", "noblocks"):
            add(how="decompile", path=f, game=m.group(1), variant=variant, map=True, name="%s[%s]" % (os.path.basename(f), variant))
        add(how="decompile", path=f, game=m.group(1), variant="default", map=False, name="%s[nomap]" % os.path.basename(f))
    for i, body in enumerate(ANM_SCRIPTS):
        for variant in ("default", "noblocks", "raw"):
            add(how="compile-decompile", source=ANM_ENTRY + body + "\n", game="th12", variant=variant,
                scratch=os.path.join(wd, "cd_%d_%s.anm" % (i, variant)), name="anm-script-%d[%s]" % (i, variant))
    # every raw string of the integration tests that the real parser accepts (as a file or as a block body)
    seen = set()
    texts = []
    for f in sorted(glob.glob(lib.REPO + "/tests/integration/*.rs")) + sorted(glob.glob(lib.REPO + "/tests/*.rs")):
        src = open(f, encoding="utf-8", errors="replace").read()
        for m in re.finditer(r'r(#+)"(.*?)"\1', src, re.S):
            texts.append((os.path.basename(f), m.group(2)))
    for f in sorted(glob.glob(lib.REPO + "/tests/integration/resources/*.spec")):
        texts.append((os.path.basename(f), open(f, encoding="utf-8").read()))
    for f in sorted(glob.glob(lib.REPO + "/tests/integration/snapshots/*.snap")):
        body = open(f, encoding="utf-8").read().split("\n---\n", 1)
        if len(body) == 2:
            texts.append((os.path.basename(f), body[1]))
    for origin, t in texts:
        if not t.strip() or t in seen or len(t) > 20000:
            continue
        seen.add(t)
        add(how="parse", source=t, name="%s:file" % origin, **{"as": "file"})
        add(how="parse", source="{\n" + t + "\n}", name="%s:block" % origin, **{"as": "block"})
    return out


# ------------------------------------------------------------------------------------------ keys (labels only)
def sig(x):
    k = x.get("k", "?") if isinstance(x, dict) else type(x).__name__
    if k == "xcr":
        return "xcr(%s%s)" % (x.get("op"), x.get("var", {}).get("name", x.get("var", {}).get("id")))
    if k in ("un", "bin"):
        return "%s(%s)" % (k, x.get("op"))
    if k == "var":
        return "var:%s" % x.get("name", x.get("id"))
    return k


def pair_class(p):
    a, b = p["a"], p["b"]
    if a.get("k") == "int" and b.get("k") == "int" and a.get("v") == b.get("v"):
        return "int-radix"
    if a.get("k") in ("int", "float") and b.get("k") == "un" and b.get("op") == "-":
        return "negative-literal"
    if a.get("k") in ("int", "float") and b.get("k") == "var" and b.get("name") in ("true", "false", "INF", "NAN"):
        return "named-constant"
    return "%s->%s" % (sig(a), sig(b))


def first_diff(a, b):
    """first differing line of two texts (for messages only)"""
    la, lb = (a or "").split("\n"), (b or "").split("\n")
    for i in range(max(len(la), len(lb))):
        x = la[i] if i < len(la) else "<end>"
        y = lb[i] if i < len(lb) else "<end>"
        if x != y:
            return "line %d: %r became %r" % (i + 1, x[:120], y[:120])
    return "no difference"


def rejected_key(text, err):
    first = err.split("\n")[0].replace("error: ", "")
    m = re.search(r"unexpected token `([^`]*)`", first)
    loc = re.search(r"<input>:(\d+):(\d+)", err)
    if not (m and loc):
        return "parse-rejected:%s" % re.sub(r"`[^`]*`", "`..`", first)[:60]
    tok = m.group(1)
    if re.fullmatch(r"![-*ENHLWXYZO4567]+", tok):
        return "parse-rejected:difficulty-token"
    lines = text.split("\n")
    line = lines[int(loc.group(1)) - 1] if int(loc.group(1)) <= len(lines) else ""
    before = line[:int(loc.group(2)) - 1]
    ops = re.search(r"[-~!+]+$", before)
    cls = "num" if tok[:1].isdigit() else "minus" if tok == "-" else "ident" if re.match(r"[A-Za-z_]", tok) else tok
    return "parse-rejected:after[%s]:%s" % (ops.group(0) if ops else "", cls)


def panic_key(ev):
    loc = ev.get("loc", "")
    if "/out/" in loc:      # generated parser: the build directory and the line are not stable
        loc = re.sub(r":\d+$", "", loc.split("/out/")[1])
    return "panic:%s:%s:%s" % (ev["op"], loc, ev.get("msg", "")[:40])


def judge(chk, rows, cases_by_id, tag, workers=8):
    """rows: harness output (with global ids).  Runs Trace_FmtParse; reports every rejected event."""
    wd = lib.workdir("c08_trace_" + tag)
    path = os.path.join(wd, "trace.ndjson")
    with_evs = [r for r in rows if "evs" in r]
    lib.write_ndjson(path, [{"id": r["id"], "evs": r["evs"]} for r in with_evs])
    res = lib.tlc("Trace_FmtParse", env={"TRACE": path}, workers=workers, timeout=2400, name="Trace_FmtParse_" + tag)
    if not res.ok:
        raise lib.ToolError("Trace_FmtParse: the judge itself failed (TypeOK/KnownEvent)\n" + res.out[-3000:])
    chk.tlc_stats(res)
    by_id = {r["id"]: r for r in with_evs}
    verdicts = sorted(set((int(a), int(b), c) for a, b, c in re.findall(r'<<"VERDICT", (\d+), (\d+), "([^"]+)">>', res.out)))
    # pairs that TLC found different under Norm, per history
    differing = {}
    for cid, ei, rule in verdicts:
        if rule == "NormDiffers":
            differing.setdefault(cid, set()).add(by_id[cid]["evs"][ei - 1]["p"])
    for cid, ei, rule in verdicts:
        row = by_id[cid]
        ev = row["evs"][ei - 1]
        case = cases_by_id.get(cid, {})
        texts = row.get("texts", {})
        text = texts.get(str(ev.get("t")))
        notes = [n for n in row.get("notes", []) if n.get("t") == ev.get("t")]
        pairs = {e["p"]: e for e in row["evs"] if e["ev"] == "pair"}
        badp = differing.get(cid, set())
        name = case.get("name") or ("%s case %s" % (case.get("src", tag), case.get("id")))
        replay = {"src": case.get("src", tag), "case": case.get("case", case), "event": ev, "rule": rule, "text": text, "notes": notes}
        chk.add("verdict_" + rule.split(":")[0])
        if rule == "NormDiffers":
            continue        # reported through the parse event that refers to the pair
        if rule.startswith("ParseBack:rejected") or rule.startswith("ModelText:rejected"):
            err = next((n["error"] for n in notes if "error" in n), "")
            key = rejected_key(text or "", err)
            if rule.startswith("ModelText"):
                key = "model-" + key
            chk.report(key, "%s: the parser rejects the printed text %r (%s); tree: %s" %
                       (name, (text or "")[:200], err.split("\n")[0], json.dumps(case.get("case", {}).get("e", ""))[:300]), replay)
        elif rule.startswith("ParseBack:different") or rule.startswith("ModelText:different"):
            bad = [pairs[p] for p in ev.get("pairs", []) if p in pairs and p in badp]
            replay["pairs"] = bad
            classes = sorted(set("%s->%s" % (sig(p["a"]), sig(p["b"])) for p in bad))
            if ev.get("struct"):
                st = next((n["struct"] for n in notes if "struct" in n), [[None, None]])
                classes.append("struct:%s->%s" % (sig(st[0][0]), sig(st[0][1])))
                replay["struct"] = st
            key = ("model-" if rule.startswith("ModelText") else "") + "parse-different:" + "+".join(classes or ["?"])
            chk.report(key, "%s: %r re-reads as a different tree: %s" %
                       (name, (text or "")[:200], "; ".join("%s  vs  %s" % (json.dumps(p["a"])[:160], json.dumps(p["b"])[:160]) for p in bad[:2])), replay)
        elif rule == "Idempotent":
            anc = [e for e in row["evs"] if e["ev"] == "parse" and e.get("ok") and e.get("a") == ev["a"] and not e.get("model")]
            if any(e.get("struct") or any(p in badp for p in e.get("pairs", [])) for e in anc):
                chk.add("idempotent_not_judged_after_different_reread")      # already reported as ParseBack:different
                continue
            classes = set()
            for e in anc:
                for p in e.get("pairs", []):
                    if p in pairs:
                        classes.add(pair_class(pairs[p]))
            before = texts.get(str(anc[0]["t"])) if anc else None
            replay["before"] = before
            classes.discard("named-constant")       # `true` re-reads as the name `true` and prints as `true` again
            if any(n.get("comments") and n.get("a") == e.get("vs") for e in anc for n in row.get("notes", [])):
                classes.add("decompiler-comments")
            for cls in sorted(classes) or ["identical-ast"]:
                chk.report("idempotent:" + cls, "%s: printing the re-read script does not give the same text (width %s): %s" %
                           (name, ev["ws"][0], first_diff(before, text)), replay)
        elif rule == "NoPanic":
            chk.report(panic_key(ev), "%s: %s panics at %s: %s (%s)" % (name, "the formatter" if ev["op"] == "fmt" else "the parser", ev.get("loc"),
                                                                       ev.get("msg"), ("width %s" % ev.get("w")) if ev["op"] == "fmt" else repr((text or "")[:200])), replay)
        else:
            chk.report("%s:%s" % (rule, tag), "%s: %s at event %d" % (name, rule, ei), replay)
    return res


def run_family(args):
    fam, thorough, out = args
    cfg = GEN[fam] + ("_thorough.cfg" if thorough and fam != "stmt" else ".cfg")
    return fam, lib.tlc(GEN[fam], cfg=cfg, env={"OUT": out}, workers=4, timeout=2400, name="%s_%s" % (GEN[fam], "t" if thorough else "q"))


def run(chk, replay=None):
    quick = chk.tier == "quick"
    wd = lib.workdir("c08")
    rows, cases_by_id = [], {}

    def harness(mode, path, widths, src, cases):
        p = lib.vh(["c08", mode, path, widths], timeout=3000)
        by_local = {c["id"]: c for c in cases}
        for line in p.stdout.splitlines():
            r = json.loads(line)
            local = r["id"]
            r["id"] = OFFSETS[src] + local
            c = by_local[local]
            cases_by_id[r["id"]] = {"src": src, "id": local, "case": c, "name": c.get("name")}
            rows.append(r)
            if "rejected" in r:
                chk.add("corpus_not_parseable")
            elif "source_panic" in r:
                chk.report("panic:source:%s" % lib.norm_loc(r["source_panic"]["panic"]["loc"]),
                           "%s: producing the AST panics: %s" % (c.get("name"), r["source_panic"]["panic"]["msg"]), {"src": src, "case": c})
            else:
                chk.add("traces_validated_against_impl")
                chk.add("histories_" + src)
                chk.add("formats_run", sum(len(e.get("ws", [])) for e in r["evs"] if e["ev"] == "fmt"))
                chk.add("texts_parsed", sum(1 for e in r["evs"] if e["ev"] == "parse"))
                chk.set("max_widths_per_case", max(chk.cov.get("max_widths_per_case", 0), r.get("nwidths", 0)))

    if replay:
        rp = json.load(open(replay))["case"]
        src, case = rp["src"], rp["case"]
        path = os.path.join(wd, "replay.ndjson")
        lib.write_ndjson(path, [case])
        harness("corpus" if src == "corpus" else "gen", path, "all" if not quick else WIDTHS_QUICK, src, [case])
        judge(chk, rows, cases_by_id, "replay", workers=2)
        return

    # ---- Mode G: TLC enumerates the families (in-model checks inside), three generators side by side
    t0 = time.time()
    only = os.environ.get("VERIF_C08_ONLY")        # development / self-test switch: one family only
    fams = [f for f in ("expr", "meta", "stmt") if not only or f == only]
    jobs = [(fam, not quick, os.path.join(wd, fam + ".ndjson")) for fam in fams]
    with ThreadPoolExecutor(max_workers=3) as ex:
        results = list(ex.map(run_family, jobs))
    chk.set("wall_generators_s", round(time.time() - t0, 1))
    t0 = time.time()
    classes = {}
    for fam, res in results:
        if not res.ok:
            raise lib.ToolError("%s: in-model invariant failed (the specification's printer/parser disagree on a generated tree)\n%s"
                                % (GEN[fam], res.out[-3000:]))
        chk.tlc_stats(res)
        cases = lib.read_ndjson(os.path.join(wd, fam + ".ndjson"))
        chk.set("generated_" + fam, len(cases))
        if fam == "expr":
            for c in cases:
                for x in c.get("cls", []):
                    classes[x] = classes.get(x, 0) + 1
            chk.set("expr_hazard_classes", classes)
            chk.set("expr_model_spelled", sum(1 for c in cases if "toks" in c))
            if not quick:       # every width for a 5 % sample
                for c in cases:
                    if chk.rng.random() < 0.05:
                        c["widths"] = "all"
                lib.write_ndjson(os.path.join(wd, fam + ".ndjson"), cases)
        if fam == "stmt" and not quick:         # statements and items at every width
            for c in cases:
                c["widths"] = "all"
            lib.write_ndjson(os.path.join(wd, fam + ".ndjson"), cases)
        harness("gen", os.path.join(wd, fam + ".ndjson"), WIDTHS_QUICK, fam, cases)

    # ---- ASTs of the real decompiler / real parser
    corpus = corpus_entries(wd, quick) if not only or only == "corpus" else []
    cpath = os.path.join(wd, "corpus.ndjson")
    lib.write_ndjson(cpath, corpus)
    harness("corpus", cpath, WIDTHS_QUICK if quick else "all", "corpus", corpus)
    for how in ("decompile", "compile-decompile", "parse"):
        chk.set("corpus_" + how.replace("-", "_"), sum(1 for r in rows if r["id"] > OFFSETS["corpus"] and "evs" in r
                                                         and cases_by_id[r["id"]]["case"]["how"] == how))

    chk.set("wall_harness_s", round(time.time() - t0, 1))
    t0 = time.time()
    # ---- Mode H: the recorded histories against the contract
    if quick:
        judge(chk, rows, cases_by_id, "all")
    else:
        shards = [rows[j::3] for j in range(3)]
        with ThreadPoolExecutor(max_workers=3) as ex:
            list(ex.map(lambda js: judge(chk, js[1], cases_by_id, "s%d" % js[0], workers=4), enumerate(shards)))

    chk.set("wall_judge_s", round(time.time() - t0, 1))
    for r in rows:
        if "evs" in r and len(chk.cov["samples"]) < 5 and r["id"] % 997 == 5:
            c = cases_by_id[r["id"]]
            chk.sample({"source": c["src"], "tree": c["case"].get("e", c["case"].get("name")), "texts": list(r["texts"].values())[:3],
                        "events": [e["ev"] for e in r["evs"]]})
    chk.set("exhaustive", True)
    chk.set("rule", "TLC-enumerated families (Gen_ExprTrees / Gen_MetaTrees / Gen_StmtTrees) are replayed completely; each history = one AST "
                    "printed at every width of its width set, every distinct text parsed, re-printed, and the re-read AST treated the same way")
    chk.assume("widths: expressions/statements/corpora at {1,8,20,40,99,200} (thorough: all 1..200 for statements, corpora and a 5% sample of the "
               "expressions), metadata at every width 1..longest line+3 and 200 (wider targets cannot change a layout whose longest line already fits)")
    chk.assume("the built-in constant names true/false/INF/NAN are not shadowed by user definitions")
    chk.assume("where lines break is not specified; only that every layout re-reads to the same script")
