"""C12 — argument encoding and decoding are inverse for every instruction signature (Mode G + in-model)."""
import json, os
from concurrent.futures import ThreadPoolExecutor
from . import lib

LEVEL = "model_checking"
MANIFEST = dict(
    design='DESIGN.md §4 C12',
    technique='TLA+ specification of the argument layout (ArgCodec.tla: signatures, widths, byte order, padding, register mask, arg0, label dwords; strings via StrFrame.tla) model-checked by TLC and replayed case by case into the real mapfile parser, Lowerer and Raiser (spec -> impl replay, both directions)',
    text='TLC enumerates every signature of length <= 2 over 30 parameter variants (all letters S s U u C c b f n N E o t _ - with imm/hex/enum/arg0) and of length 3 over 11 variants, each with argument lists over width boundaries (just inside, just outside) and registers vs immediates, plus long signatures for the 16-bit register mask, string parameters between other parameters and a register-less language. In-model (every case is one TLC state): Encode is defined exactly when no documented reason forbids it, position by position; Decode(Encode(x)) = x; blob length, padding bytes, mask bits and arg0 are as documented; local injectivity; byte-level bijection theorems over all 1- and 2-byte strings. Every exported case is replayed: the real compile must give exactly the specified blob/mask/arg0 without warnings (or a diagnostic when the specification has no encoding), the real Raiser must give back the argument list from the real and from the specified bytes, and recompiling the decompiled text must reproduce the bytes. Invalid signatures must be rejected by the mapfile parser.',
    note='Trusted: TLC, CommunityModules Json, the harness renderer (signature/argument -> text) and the structural AST exporter. A register in an immediate-only slot counts as diagnosed when truth warns about it. Float values are compared as bit patterns; NaN payloads are not exercised. Quick tier replays a fixed stride of the length-2/3 families plus a seed-chosen sample; thorough replays all.',
)

# few GC threads and C1-only compilation: the TLC runs are short and the machine is shared
JVM = "-XX:ParallelGCThreads=2 -XX:TieredStopAtLevel=1 -Xmx3g"
WARN_REG_IN_IMM = "non-constant expression in immediate argument"


def norm_dec(view, case):
    """decompiled call -> argument list in the specification's vocabulary (or a string describing why not)"""
    if "args" not in view:
        return "shape:" + json.dumps(view)[:200]
    before, after = view.get("before", []), view.get("after", [])
    if view.get("pseudos"):
        return "pseudo-args:" + json.dumps(view["pseudos"])[:200]
    out = []
    for a in view["args"]:
        k = a.get("k")
        if k == "int":
            out.append({"k": "imm", "v": a["v"]})
        elif k == "float":
            out.append({"k": "fimm", "v": a["bits"]})
        elif k == "str":
            out.append({"k": "str", "v": [ord(ch) for ch in a["v"]]})
        elif k == "var" and a["id"].startswith("r"):
            out.append({"k": "reg" if a["sig"] != "%" else "freg", "v": int(a["id"][1:])})
        elif k == "var":
            out.append({"k": "sym", "v": a["id"]})
        elif k == "labelprop":
            where = 0 if a["label"] in before else 1 if a["label"] in after else -1
            out.append({"k": "off" if a["kw"] == "offsetof" else "time", "v": where})
        else:
            out.append({"k": "other", "v": json.dumps(a)[:100]})
    return out


def param_text(p):
    return p["ch"] + ("(%s)" % ";".join(p["attrs"]) if p["attrs"] else "")


def diff_args(got, case):
    """None when the decoded list equals the case's arguments, else the text of the first parameter
    that differs.  A jump time may read back as the plain number (binding constants: label in front =
    time 0, label behind = time 30) or as `timeof` of whatever label the decompiler placed (the
    decompiled text carries its own time labels; the recompile decides); parameters with an enum may
    read back as the enum's symbol (then only the recompile decides)."""
    want = case["args"]
    if not isinstance(got, list) or len(got) != len(want):
        return "arity"
    params = [p for p in case["sig"] if p["ch"] not in "_-"]
    for g, w, p in zip(got, want, params):
        if g == w:
            continue
        if w["k"] == "time" and (g == {"k": "imm", "v": (0, 30)[w["v"]]} or g["k"] == "time"):
            continue
        if "enum" in p["attrs"] and g["k"] == "sym":
            continue
        return param_text(p)
    return None


def sig_has_pad_before_arg(case):
    seen_pad = False
    for p in case["sig"]:
        if p["ch"] in "_-":
            seen_pad = True
        elif seen_pad:
            return True
    return False


def classify_rejection(case, side):
    """an argument list that has an encoding was rejected: name the class.  `pad-shift`: the k-th argument is
    checked against the k-th *parameter including padding* (observable structure: the parameter standing at
    the argument's position is a padding/const-only one, or one of the other type)"""
    full = side["err"]["full"]
    if sig_has_pad_before_arg(case):
        sig, args = case["sig"], case["args"]
        ty_arg = lambda a: "f" if a["k"] in ("fimm", "freg") else "s" if a["k"] == "str" else "i"
        ty_par = lambda p: "f" if p["ch"] == "f" else "s" if p["ch"] in "zmp" else "i"
        for k, a in enumerate(args):
            if k >= len(sig):
                break
            p = sig[k]                       # the parameter at the argument's position, padding included
            if "type error" in full and ty_arg(a) != ty_par(p):
                return "pad-shift:type-error"
            if "compile-time constant" in full and a["k"] in ("reg", "freg") and (p["ch"] in "_-ot" or "arg0" in p["attrs"]):
                return "pad-shift:register-rejected"
    return "rejected:" + (side["err"]["errors"] or ["?"])[0][:60]


def first_problem(case):
    pr = case["exp"]["problems"]
    kinds = [p["kind"] for p in pr]
    return pr, kinds


def judge(chk, case, o):
    text = "%s | ins_200(%s)" % (o["sigtext"], o["src"].split("\n")[2].strip()[8:-2])
    rep = {"case": case, "observed": o}

    def report(key, what):
        chk.report(key, what + "  [signature `%s`, lang %s, call `%s`]" % (o["sigtext"], case["lang"], o["src"].split("\n")[2].strip()), rep)

    for side in ("map", "enc", "dec", "dec_spec", "reenc"):
        if side in o and "panic" in o[side]:
            report("panic:%s:%s" % (side, lib.norm_loc(o[side]["panic"]["loc"])), "%s panics: %s" % (side, o[side]["panic"]["msg"]))
            return
    # ---- the signature itself
    if not case["valid"]:
        if "ok" in o["map"]:
            report("invalid-signature-accepted:%s" % o["sigtext"], "the mapfile parser accepts an invalid signature")
        elif not o["map"]["err"]["errors"]:
            report("invalid-signature-no-diagnostic:%s" % o["sigtext"], "signature rejected without an error message")
        return
    if "ok" not in o["map"]:
        report("valid-signature-rejected:%s" % o["sigtext"], "the mapfile parser rejects a valid signature: %s" % o["map"]["err"]["errors"][:1])
        return
    exp = case["exp"]
    enc = o["enc"]
    # ---- calls without an encoding must be diagnosed
    if not exp["ok"]:
        pr, kinds = first_problem(case)
        if "err" in enc:
            if not enc["err"]["errors"]:
                report("error-without-message", "compile failed without an error message")
            return
        warns = enc["diag"]["warnings"]
        if set(kinds) == {"reg_in_imm"} and any(WARN_REG_IN_IMM in w for w in warns):
            chk.add("diagnosed_by_warning")
            return
        # accepted silently: name the class by the first undiagnosed reason
        p = [x for x in pr if not (x["kind"] == "reg_in_imm" and any(WARN_REG_IN_IMM in w for w in warns))][0]
        ch = p["ch"] + ("(arg0)" if "arg0" in case["sig"][p["at"] - 1]["attrs"] else "")
        if p["kind"] == "nofit":
            key, what = "truncates:%s" % ch, "a value that does not fit `%s` is written truncated without a diagnostic" % ch
        elif p["kind"] == "no_mask_bit":
            key, what = "mask17:register-silently-immediate", "a register in the 17th argument has no mask bit and is written as an immediate without a diagnostic"
        else:
            key, what = "undiagnosed:%s:%s" % (p["kind"], ch), "a call without an encoding (%s) compiles without a diagnostic" % p["kind"]
        got = enc["ok"]
        report(key, what + "; wrote blob=%s mask=%s%s" % (got.get("blob"), got.get("mask"),
               (", reads back as `%s`" % o["dec"]["text"].split("\n")[1].strip()) if "text" in o.get("dec", {}) else ""))
        return
    # ---- calls with an encoding
    want = {"blob": exp["blob"], "mask": exp["mask"], "arg0": exp["arg0"]}
    if "err" in enc:
        report(classify_rejection(case, enc), "a call that has an encoding is rejected: %s" % enc["err"]["errors"][:1])
    else:
        got = {k: enc["ok"].get(k) for k in ("blob", "mask", "arg0")}
        if got != want:
            report("encoding-differs:%s" % o["sigtext"], "real encoding %s, specification %s" % (got, want))
        elif enc["diag"]["warnings"]:
            report("warns:%s" % enc["diag"]["warnings"][0][:50], "compile of an encodable call warns: %s" % enc["diag"]["warnings"][0])
        # Decode o Encode through the real code
        dec = o.get("dec", {})
        if "ok" not in dec:
            report("decode-fails", "the real Raiser fails on the instruction the real Lowerer wrote: %s" % dec.get("err", {}).get("errors"))
        elif got == want:
            d = diff_args(norm_dec(dec["ok"], case), case)
            if d:
                report("decode-differs:%s" % d, "Decode(Encode(x)) != x at `%s`: reads back as `%s`" % (d, dec["text"].split("\n")[1].strip()))
            elif dec["diag"]["warnings"]:
                report("decode-warns:%s" % dec["diag"]["warnings"][0][:50], "decompiling warns: %s" % dec["diag"]["warnings"][0])
    # second direction: the specification's bytes through the real Raiser, then the real Lowerer
    ds = o.get("dec_spec", {})
    if "ok" not in ds:
        report("decode-spec-fails", "the real Raiser fails on the specified bytes: %s" % ds.get("err", {}).get("errors"))
        return
    d = diff_args(norm_dec(ds["ok"], case), case)
    if d:
        report("decode-differs:%s" % d, "the specified bytes read back wrong at `%s`: `%s`" % (d, ds["text"].split("\n")[1].strip()))
    elif ds["diag"]["warnings"]:
        report("decode-warns:%s" % ds["diag"]["warnings"][0][:50], "decompiling the specified bytes warns: %s" % ds["diag"]["warnings"][0])
    re = o.get("reenc", {})
    if "err" in re:
        report(classify_rejection(case, re).replace("pad-shift:", "pad-shift:recompile:"), "decompiled text `%s` does not recompile: %s" % (ds["text"].split("\n")[1].strip(), re["err"]["errors"][:1]))
    elif "ok" in re:
        got = {k: re["ok"].get(k) for k in ("blob", "mask", "arg0")}
        if got != want:
            report("reencode-differs:%s" % o["sigtext"], "Encode(Decode(y)) != y: %s vs %s" % (got, want))


def run(chk, replay=None):
    wd = lib.workdir("c12")
    thorough = chk.tier == "thorough"
    n_total = None
    # seed-chosen extra sample on top of the fixed stride (ids inside F2/F3)
    extra = os.path.join(wd, "extra.ndjson")
    N01, N2, N3 = 181, 32400, 85184
    ids = [] if thorough else sorted({N01 + 1 + chk.rng.randrange(N2 + N3) for _ in range(1000)})
    if replay:
        ids = [json.load(open(replay))["case"]["case"]["id"]]
    lib.write_ndjson(extra, [{"id": i} for i in ids])
    cases_path = os.path.join(wd, "cases.ndjson")
    stride2, stride3 = ("1", "1") if thorough else ("7", "16")
    if replay:
        stride2, stride3 = str(N2 + 1), str(N3 + 1)
    common = {"EXTRA": extra, "STRIDE2": stride2, "STRIDE3": stride3,
              "SHARD": "0", "NSHARDS": "1", "_JAVA_OPTIONS": JVM}

    def t_bytes():
        return lib.tlc("MC_ArgCodec", env={"_JAVA_OPTIONS": JVM}, workers=1, timeout=900)

    def t_check():
        return lib.tlc("Gen_ArgCodec", env=dict(common, MODE="check", SM="1" if thorough else "8", SM2="1" if thorough else "2", OUT=os.devnull),
                       workers=6, timeout=2400, name="Gen_ArgCodec_check")

    def t_export():
        return lib.tlc("Gen_ArgCodec", env=dict(common, MODE="export", SM="1", SM2="1", OUT=cases_path),
                       workers=1, timeout=2400, name="Gen_ArgCodec_export")

    import time
    walls = {}

    def timed(f):
        t0 = time.time()
        r = f()
        walls[f.__name__[2:]] = round(time.time() - t0, 1)
        return r

    with ThreadPoolExecutor(3) as ex:
        fs = [ex.submit(timed, f) for f in ((t_export,) if replay else (t_bytes, t_check, t_export))]
        res = [f.result() for f in fs]
    chk.set("tlc_wall_s", walls)
    for r, what in zip(res, ("byte-level theorems (MC_ArgCodec)", "in-model facts (Gen_ArgCodec)", "export")):
        if not r.ok:
            raise lib.ToolError("%s: the specification itself is inconsistent\n%s" % (what, r.out[-3000:]))
    if not replay:
        chk.tlc_stats(res[1])
    cases = [c for c in lib.read_ndjson(cases_path) if not c["dup"]]
    seen, uniq = set(), []
    for c in cases:
        if c["id"] not in seen:
            seen.add(c["id"]); uniq.append(c)
    cases = uniq
    if replay:
        cases = [c for c in cases if c["id"] == ids[0]]
    lib.write_ndjson(cases_path, cases)
    t0 = time.time()
    p = lib.vh(["c12", cases_path])
    walls["harness"] = round(time.time() - t0, 1)
    obs = {}
    for line in p.stdout.split("\n"):
        if not line.strip():
            continue
        o = json.loads(line)
        obs[o["id"]] = o
    fams = {}
    for c in cases:
        o = obs.get(c["id"])
        if o is None:
            raise lib.ToolError("harness lost case %s" % c["id"])
        chk.add("traces_validated_against_impl")
        fams[c["fam"]] = fams.get(c["fam"], 0) + 1
        if not c["valid"]:
            chk.add("invalid_signatures")
        elif not c["exp"]["ok"]:
            chk.add("cases_without_encoding")
        else:
            chk.add("cases_with_encoding")
        judge(chk, c, o)
        if c["id"] % 4001 == 7 or c["fam"] == "FS" and c["id"] % 3 == 0:
            chk.sample({"signature": o["sigtext"], "call": o["src"].split("\n")[2].strip(), "lang": c["lang"],
                        "expected": c.get("exp", "invalid signature"),
                        "real": o.get("enc", {}).get("ok", o.get("enc", o["map"]).get("err", {}).get("errors"))})
    chk.set("cases_by_family", fams)
    chk.set("exhaustive", bool(thorough))
    chk.set("rule", "one TLC state per (signature, argument list, language); families F0-F2 (length<=2, 30 variants x 6 choices), "
                    "F3 (length 3, 11 variants x 4 choices), FB (no registers), FL (16-bit mask), FS (strings inside signatures); "
                    "quick: in-model over F0/F1/FB/FL/FS + every 2nd F2 + every 8th F3 case, replay of F0/F1/FB/FL/FS + every 7th F2 / 16th F3 case + 1000 seed-chosen; thorough: everything")
    chk.assume("a register in an immediate-only parameter counts as diagnosed when truth emits its warning 'non-constant expression in immediate argument'")
    chk.assume("o/t arguments are labels directly in front of / behind the instruction; float arguments are compared as IEEE bit patterns")
    chk.assume("arg0 parameters are exercised in the TH06 timeline language without registers, as in the real formats")
